/-
  Rrss.Lemmas.RoundTripSpine — C02, parser half: the generic step of the ladder. If the operand
  parser of a level behaves as its syntax description says (`LayOK`), then so do the operand
  lists (`parse_expression_list` with the `parsing_list` flag) and the operator loop
  (`parse_binary_expression_loop`) of that level.
-/
import Rrss.Lemmas.RoundTripPrimary
namespace Rrss
namespace Grammar
open Parser

variable {N : Type} [CharOps] {α : Type}

/-- a syntax description together with the tree WITH ranges that the parser builds -/
structure Lay (N α : Type) extends Syn N α where
  ast : α → Choices N → Expr N

/-- the operand parser of level `lvl` parses what `L` unparses -/
structure LayOK (lvl : Level) (L : Lay N α) : Prop where
  runs : ∀ (x : α) (c : Choices N) (n : Nat) (rest : List (Tok N)) (src last eof) (b : Bool),
    L.wf b x = true → (L.toks x c).length ≤ n → L.toSyn.Stop b x rest →
    operandOf (parser n) lvl ⟨src, L.toks x c ++ rest, last, eof, b⟩
      = .ok (L.ast x c, ⟨src, rest, lastSnap (L.toks x c) last, eof, b⟩)
  heads : ∀ (x : α) (c : Choices N), ∃ t ts, L.toks x c = t :: ts ∧
    exprStarts.contains t.kind = true ∧ getUnaryOperator t.kind = L.startsUn x
  comma_ok : TK.comma ∉ L.forbidden

def restAst (L : Lay N α) : List α → Choices N → List (Expr N)
  | [], _ => []
  | e :: es, c => L.ast e (c.sub 1) :: restAst L es (c.sub 2)

theorem hrec_listLoop (n : Nat) (lvl : Level) : (parser (n + 1) : Rec N).listLoop lvl
    = listLoopBody (parser n) lvl (operandOf (parser n) lvl) := rfl
theorem hrec_binLoop (n : Nat) (lvl : Level) (e : Expr N) : (parser (n + 1) : Rec N).binLoop lvl e
    = binLoopBody (parser n) lvl (operandOf (parser n) lvl) e := rfl

theorem heads_weak {L : Lay N α} {lvl} (H : LayOK lvl L) (x : α) (c : Choices N) :
    ∃ t ts, L.toks x c = t :: ts ∧ exprStarts.contains t.kind = true := by
  obtain ⟨t, ts, h1, h2, _⟩ := H.heads x c
  exact ⟨t, ts, h1, h2⟩

theorem toks_pos {L : Lay N α} {lvl} (H : LayOK lvl L) (x : α) (c : Choices N) :
    1 ≤ (L.toks x c).length := by
  obtain ⟨t, ts, h1, _⟩ := H.heads x c
  simp [h1]

omit [CharOps] in
theorem commaToks_len (c : Choices N) : 1 ≤ (commaToks c).length := by simp [commaToks]

theorem rest_run {lvl : Level} {L : Lay N α} (H : LayOK lvl L) :
    ∀ (es : List α) (c : Choices N) (n : Nat) (rest : List (Tok N)) (src last eof) (d : Bool),
    es.all (L.wf true) = true → chainOKL L.edgeCall es = true →
    (restToks L.toSyn es c).length ≤ n →
    nextIn L.forbidden rest = false → (lastEdge L.toSyn d es = true → nextIn argSeps rest = false) →
    nextIn [.comma] rest = false →
    listLoopBody (parser n) lvl (operandOf (parser n) lvl)
        ⟨src, restToks L.toSyn es c ++ rest, last, eof, true⟩
      = .ok (restAst L es c, ⟨src, rest, lastSnap (restToks L.toSyn es c) last, eof, true⟩) := by
  intro es
  induction es with
  | nil =>
    intro c n rest src last eof d _ _ _ _ _ h3
    simp [restToks, listLoopBody, bind_run, mac_stop_kind h3, pure_run, restAst]
  | cons e es ih =>
    intro c n rest src last eof d hw hch hn h1 h2 h3
    simp only [List.all_cons, Bool.and_eq_true] at hw
    simp only [restToks, List.length_append] at hn
    have hcl := commaToks_len (c.sub 0)
    cases n with
    | zero => omega
    | succ n =>
      have hstop : L.toSyn.Stop true e (restToks L.toSyn es (c.sub 2) ++ rest) := by
        cases es with
        | nil => exact ⟨by simpa [restToks] using h1, by simpa [restToks, lastEdge] using h2, by simp⟩
        | cons e' es' =>
          have h0 : L.edgeCall e = false := by
            simp only [chainOKL, chainOK, Bool.and_eq_true, Bool.not_eq_true'] at hch
            exact hch.1
          refine ⟨?_, by simp [h0], by simp⟩
          simp [restToks, commaToks, nextIn_cons, H.comma_ok]
      have he := fun last => H.runs e (c.sub 1) (n + 1) (restToks L.toSyn es (c.sub 2) ++ rest) src
        last eof true hw.1 (by omega) hstop
      have hes := fun last => ih (c.sub 2) n rest src last eof (L.edgeCall e) hw.2
        (chainOKL_of_chainOK hch) (by omega) h1 (by simpa [lastEdge] using h2) h3
      have hand : nextIn [.and] (L.toks e (c.sub 1) ++ (restToks L.toSyn es (c.sub 2) ++ rest)) = false :=
        nextIn_of_head (starts := exprStarts) (heads_weak H e _) (by decide)
      rw [listLoopBody]
      simp only [restToks, commaToks, List.append_assoc, List.cons_append]
      split <;>
        simp [bind_run, mac_cons, isKind, mac_stop_kind hand, he, hrec_listLoop, hes, pure_run, restAst]

/-- what may follow an operand list (inside a list element iff `b`) -/
def OpListStop (L : Syn N α) (b : Bool) (l : OpList α) (rest : List (Tok N)) : Prop :=
  nextIn L.forbidden rest = false ∧ (OpList.edgeCall L l = true → nextIn argSeps rest = false) ∧
  (b = false → nextIn [.comma] rest = false)

omit [CharOps] in
theorem getPL_run (src : Str) (toks : List (Tok N)) (last eof b) :
    getParsingList ⟨src, toks, last, eof, b⟩ = .ok (b, ⟨src, toks, last, eof, b⟩) := rfl
omit [CharOps] in
theorem setPL_run (src : Str) (toks : List (Tok N)) (last eof b b') :
    setParsingList b' ⟨src, toks, last, eof, b⟩ = .ok ((), ⟨src, toks, last, eof, b'⟩) := rfl

theorem oplist_run {lvl : Level} {L : Lay N α} (H : LayOK lvl L) (l : OpList α) (c : Choices N)
    (n : Nat) (rest : List (Tok N)) (src last eof) (b : Bool)
    (hw : OpList.wf L.toSyn b l = true) (hn : (OpList.toks L.toSyn l c).length ≤ n)
    (hs : OpListStop L.toSyn b l rest) :
    parseExpressionList (parser n) lvl (operandOf (parser n) lvl)
        ⟨src, OpList.toks L.toSyn l c ++ rest, last, eof, b⟩
      = .ok (⟨L.ast l.first (c.sub 0), restAst L l.rest (c.sub 1)⟩,
          ⟨src, rest, lastSnap (OpList.toks L.toSyn l c) last, eof, b⟩) := by
  obtain ⟨first, es⟩ := l
  simp only [OpList.toks, List.length_append] at hn
  cases b with
  | true =>
    simp only [OpList.wf, if_true, Bool.and_eq_true, List.isEmpty_iff] at hw
    obtain ⟨hw1, hw2⟩ := hw
    subst hw2
    have hf := H.runs first (c.sub 0) n rest src last eof true hw1 (by simpa [restToks] using hn)
      ⟨hs.1, by simpa [OpList.edgeCall, lastEdge] using hs.2.1, by simp⟩
    simp [parseExpressionList, OpList.toks, restToks, bind_run, hf, getPL_run, setPL_run, pure_run, restAst]
  | false =>
    simp only [OpList.wf, Bool.false_eq_true, if_false, Bool.and_eq_true, Bool.or_eq_true,
      List.isEmpty_iff, Bool.not_eq_true'] at hw
    obtain ⟨hw1, ⟨hw2, hw3⟩, hw4⟩ := hw
    have hstop : L.toSyn.Stop false first (restToks L.toSyn es (c.sub 1) ++ rest) := by
      cases es with
      | nil =>
        exact ⟨by simpa [restToks] using hs.1, by simpa [restToks, OpList.edgeCall, lastEdge] using hs.2.1,
          fun _ _ => by simpa [restToks] using hs.2.2 rfl⟩
      | cons e' es' =>
        have h0 : L.edgeCall first = false := by
          simp only [chainOK, Bool.and_eq_true, Bool.not_eq_true'] at hw4
          exact hw4.1
        have h0' : L.edgeList first = false := by simpa using hw3
        refine ⟨?_, by simp [h0], by simp [h0']⟩
        simp [restToks, commaToks, nextIn_cons, H.comma_ok]
    have hf := H.runs first (c.sub 0) n (restToks L.toSyn es (c.sub 1) ++ rest) src last eof false hw1
      (by omega) hstop
    have hr := fun last => rest_run H es (c.sub 1) n rest src last eof (L.edgeCall first) hw2
      (chainOKL_of_chainOK hw4) (by omega) hs.1 hs.2.1 (hs.2.2 rfl)
    simp [parseExpressionList, OpList.toks, bind_run, hf, getPL_run, setPL_run, hr, pure_run]

/-! ### operators -/

omit [CharOps] in
theorem opKind_mem (op : BinOp) (k : Nat) (h : op ≠ .eq) : opKind op k ∈ opKinds op := by
  cases op with
  | eq => exact absurd rfl h
  | plus => by_cases hk : k % 2 = 0 <;> simp [opKind, opKinds, hk]
  | _ => simp [opKind, opKinds]

omit [CharOps] in
theorem getBinaryOperator_opKind (op : BinOp) (k : Nat) (h : op ≠ .eq) :
    getBinaryOperator (opKind op k) = some op := by
  cases op with
  | eq => exact absurd rfl h
  | plus => by_cases hk : k % 2 = 0 <;> simp [opKind, getBinaryOperator, hk]
  | _ => rfl

omit [CharOps] in
theorem opKind_sep (op : BinOp) (k : Nat) (h : opKind op k ∈ argSeps) : op = .and := by
  cases op with
  | plus => by_cases hk : k % 2 = 0 <;> simp [opKind, argSeps, hk] at h
  | and => rfl
  | _ => simp [opKind, argSeps] at h

omit [CharOps] in
theorem opKind_ne_comma (op : BinOp) (k : Nat) : opKind op k ≠ .comma := by
  cases op with
  | plus => by_cases hk : k % 2 = 0 <;> simp [opKind, hk]
  | _ => simp [opKind]

/-- the tree (with ranges) of a spine -/
def foldOpsR (L : Lay N α) : Expr N → List (BinOp × OpList α) → Choices N → Expr N
  | e, [], _ => e
  | e, (op, l) :: r, c =>
      foldOpsR L (.bin op e (L.ast l.first ((c.sub 1).sub 0)) (restAst L l.rest ((c.sub 1).sub 1))) r (c.sub 2)

theorem ops_run {lvl : Level} {L : Lay N α} (H : LayOK lvl L) (ops : List BinOp)
    (hops : opsOf lvl = ops.flatMap opKinds) (heq : BinOp.eq ∉ ops)
    (hforb : ∀ op ∈ ops, ∀ k, opKind op k ∉ L.forbidden) :
    ∀ (os : List (BinOp × OpList α)) (c : Choices N) (n : Nat) (rest : List (Tok N)) (src last eof)
      (b prev : Bool) (e : Expr N),
    wfOps L.toSyn ops b prev os = true → (opsToks L.toSyn os c).length ≤ n →
    nextIn (L.forbidden ++ ops.flatMap opKinds) rest = false →
    (opsEdgeCall L.toSyn prev os = true → nextIn argSeps rest = false) →
    (b = false → os ≠ [] → nextIn [.comma] rest = false) →
    binLoopBody (parser n) lvl (operandOf (parser n) lvl) e
        ⟨src, opsToks L.toSyn os c ++ rest, last, eof, b⟩
      = .ok (foldOpsR L e os c, ⟨src, rest, lastSnap (opsToks L.toSyn os c) last, eof, b⟩) := by
  intro os
  induction os with
  | nil =>
    intro c n rest src last eof b prev e _ _ h1 _ _
    have h1' : nextIn (opsOf lvl) rest = false := by rw [hops]; exact (nextIn_append.mp h1).2
    simp [opsToks, binLoopBody, bind_run, mac_stop_any h1', pure_run, foldOpsR]
  | cons ol r ih =>
    intro c n rest src last eof b prev e hw hn h1 h2 h3
    obtain ⟨op, l⟩ := ol
    simp only [wfOps, Bool.and_eq_true, List.contains_eq_mem, decide_eq_true_eq] at hw
    obtain ⟨⟨⟨hmem, hprev⟩, hwl⟩, hwr⟩ := hw
    simp only [opsToks, List.length_cons, List.length_append] at hn
    have hne : op ≠ .eq := fun h => heq (h ▸ hmem)
    cases n with
    | zero => omega
    | succ n =>
      have hk : isAnyKind (opsOf lvl) (tk (.kw (opKind op (c.sub 0).choice)) (c.sub 0) : Tok N) = true := by
        simp only [isAnyKind, tk_kw_kind, hops, List.contains_eq_mem, List.mem_flatMap, decide_eq_true_eq]
        exact ⟨op, hmem, opKind_mem op _ hne⟩
      have hstop : OpListStop L.toSyn b l (opsToks L.toSyn r (c.sub 2) ++ rest) := by
        cases r with
        | nil =>
          exact ⟨by simpa [opsToks] using (nextIn_append.mp h1).1, by simpa [opsToks, opsEdgeCall] using h2,
            fun hb => by simpa [opsToks] using h3 hb (by simp)⟩
        | cons ol' r' =>
          obtain ⟨op', l'⟩ := ol'
          simp only [wfOps, Bool.and_eq_true, List.contains_eq_mem, decide_eq_true_eq] at hwr
          obtain ⟨⟨⟨hmem', hprev'⟩, _⟩, _⟩ := hwr
          refine ⟨?_, ?_, ?_⟩
          · simpa [opsToks, nextIn_cons] using hforb op' hmem' _
          · intro hec
            have : op' ≠ .and := by
              intro h
              simp [hec, h] at hprev'
            simp only [opsToks, List.cons_append, nextIn_cons, tk_kw_kind, List.contains_eq_mem,
              decide_eq_false_iff_not]
            exact fun hm => this (opKind_sep _ _ hm)
          · intro _
            simp only [opsToks, List.cons_append, nextIn_cons, tk_kw_kind, List.contains_cons,
              List.contains_nil, Bool.or_false, beq_eq_false_iff_ne, ne_eq]
            exact fun h => opKind_ne_comma _ _ h
      have hl := fun last => oplist_run H l (c.sub 1) (n + 1) (opsToks L.toSyn r (c.sub 2) ++ rest) src
        last eof b hwl (by omega) hstop
      have hr := fun last e => ih (c.sub 2) n rest src last eof b (OpList.edgeCall L.toSyn l) e hwr
        (by omega) h1 (by simpa [opsEdgeCall] using h2)
        (fun hb _ => h3 hb (by simp))
      rw [binLoopBody]
      simp [opsToks, bind_run, mac_cons, hk, getBinaryOperator_opKind op _ hne, ofOption_some, hl,
        hrec_binLoop, hr, foldOpsR]

/-! ### a spine is a level -/

def spineLay (L : Lay N α) (ops : List BinOp) : Lay N (Spine α) :=
  ⟨spineSyn L.toSyn ops, fun s c => foldOpsR L (L.ast s.head (c.sub 0)) s.ops (c.sub 1)⟩

omit [CharOps] in
/-- an operand followed by an operator of the level -/
theorem stop_before_op (L : Syn N α) (ops : List BinOp) (hforb : ∀ op ∈ ops, ∀ k, opKind op k ∉ L.forbidden)
    (op : BinOp) (hmem : op ∈ ops) (ec : Bool) (hprev : (!(ec && op == .and)) = true)
    (t : Tok N) (k : Nat) (ht : t.kind = opKind op k) (ts : List (Tok N)) :
    nextIn L.forbidden (t :: ts) = false ∧ (ec = true → nextIn argSeps (t :: ts) = false) ∧
      nextIn [.comma] (t :: ts) = false := by
  refine ⟨?_, ?_, ?_⟩
  · simpa [nextIn_cons, ht] using hforb op hmem k
  · intro hec
    have : op ≠ .and := by
      intro h
      simp [hec, h] at hprev
    simp only [nextIn_cons, ht, List.contains_eq_mem, decide_eq_false_iff_not]
    exact fun hm => this (opKind_sep _ _ hm)
  · simp only [nextIn_cons, ht, List.contains_cons, List.contains_nil, Bool.or_false,
      beq_eq_false_iff_ne, ne_eq]
    exact fun h => opKind_ne_comma _ _ h

theorem spine_ok {lvl lvl' : Level} {L : Lay N α} (H : LayOK lvl L) (ops : List BinOp)
    (hops : opsOf lvl = ops.flatMap opKinds) (heq : BinOp.eq ∉ ops)
    (hforb : ∀ op ∈ ops, ∀ kd ∈ opKinds op, kd ∉ L.forbidden)
    (hup : ∀ rec : Rec N, operandOf rec lvl' = parseBinaryExpression rec lvl (operandOf rec lvl))
    (hcomma : TK.comma ∉ ops.flatMap opKinds) : LayOK lvl' (spineLay L ops) := by
  have hforb' : ∀ op ∈ ops, ∀ k, opKind op k ∉ L.forbidden := fun op hm k =>
    hforb op hm _ (opKind_mem op k (fun h => heq (h ▸ hm)))
  refine ⟨?_, ?_, ?_⟩
  · intro s c n rest src last eof b hw hn hs
    obtain ⟨head, os⟩ := s
    obtain ⟨hs1, hs2, hs3⟩ := hs
    simp only [spineLay, spineSyn, Bool.and_eq_true] at hw hn hs1 hs2 hs3 ⊢
    simp only [List.length_append] at hn
    obtain ⟨hwh, hwo⟩ := hw
    have hstop : L.toSyn.Stop b head (opsToks L.toSyn os (c.sub 1) ++ rest) := by
      cases os with
      | nil =>
        exact ⟨by simpa [opsToks] using (nextIn_append.mp hs1).1, by simpa [opsToks, opsEdgeCall] using hs2,
          by simpa [opsToks] using hs3⟩
      | cons ol r =>
        obtain ⟨op, l⟩ := ol
        simp only [wfOps, Bool.and_eq_true, List.contains_eq_mem, decide_eq_true_eq] at hwo
        obtain ⟨⟨⟨hmem, hprev⟩, _⟩, _⟩ := hwo
        have := stop_before_op L.toSyn ops hforb' op hmem (L.edgeCall head) hprev
          (tk (.kw (opKind op ((c.sub 1).sub 0).choice)) ((c.sub 1).sub 0)) _ rfl
          (OpList.toks L.toSyn l ((c.sub 1).sub 1) ++ opsToks L.toSyn r ((c.sub 1).sub 2) ++ rest)
        simp only [opsToks, List.cons_append, List.append_assoc] at this ⊢
        exact ⟨this.1, this.2.1, fun _ _ => this.2.2⟩
    have hh := H.runs head (c.sub 0) n (opsToks L.toSyn os (c.sub 1) ++ rest) src last eof b hwh
      (by omega) hstop
    have ho := fun last e => ops_run H ops hops heq hforb' os (c.sub 1) n rest src last eof b
      (L.edgeCall head) e hwo (by omega) hs1 hs2
      (fun hb hne => hs3 hb (by cases os with
        | nil => exact absurd rfl hne
        | cons _ _ => rfl))
    rw [hup]
    simp [parseBinaryExpression, bind_run, hh, ho]
  · intro s c
    obtain ⟨t, ts, h1, h2, h3⟩ := H.heads s.head (c.sub 0)
    exact ⟨t, ts ++ opsToks L.toSyn s.ops (c.sub 1), by simp [spineLay, spineSyn, h1], h2, h3⟩
  · simp only [spineLay, spineSyn, List.mem_append, not_or]
    exact ⟨H.comma_ok, hcomma⟩

end Grammar
