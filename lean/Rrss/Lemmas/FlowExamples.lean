/-
  Rrss.Lemmas.FlowExamples — small concrete programs (over the exact-integer number instance and a
  trivial character classification) used by the non-vacuity examples of C04 and C08.
-/
import Rrss.Interp
import Rrss.NumInt
namespace Rrss
namespace FlowExamples

/-- character classification for kernel-evaluated examples: nothing is special, lower-casing is
    the identity -/
@[reducible] def exChars : CharOps where
  isAlphabetic _ := false
  isNumeric _ := false
  isWhitespace _ := false
  isUppercase _ := false
  isLowercase _ := false
  toLower c := [c]

def r0 : Range := ⟨⟨0, 0⟩, ⟨0, 0⟩⟩
def x : VarName := .simple (str% "x")
def f : VarName := .simple (str% "f")
def vx : Primary Int := .ident (.var x) r0
def num (n : Int) : Expr Int := .prim (.lit (.num n) r0)
def blk (ss : List (Stmt Int)) : Block Int := .mk ⟨0, 0⟩ ss

def tt : Expr Int := .prim (.lit (.bool true) r0)
def ff : Expr Int := .prim (.lit (.bool false) r0)
/-- the default start environment -/
def e0 : Env Int := {}

/-- `x = 0; while x < 5 { x++; say x; if x = 2 { if true { break } } }; say "done"` -/
def loopBreakStmts : List (Stmt Int) := [
  .assign (.ident (.var x) r0) none ⟨num 0, []⟩,
  .whileS (.bin .less (.prim vx) (num 5) []) (blk [
    .inc (.var x) r0 1,
    .output (.prim vx),
    .ifS (.bin .eq (.prim vx) (num 2) []) (blk [
      .ifS tt (blk [.break_ r0]) none]) none]),
  .output (.prim (.lit (.str (str% "done")) r0))]

def loopBreak : Program Int := ⟨[blk loopBreakStmts]⟩

/-- `say 1; say it; say 9` — the second statement fails (no pronoun referent) -/
def sayThenError : List (Stmt Int) := [
  .output (num 1), .output (.prim (.ident .pronoun r0)), .output (num 9)]

/-- `listen to x; say x; listen; listen to x; say x` -/
def echo : Program Int := ⟨[blk [
  .input (some (.ident (.var x) r0)) ⟨0, 0⟩,
  .output (.prim vx),
  .input none ⟨0, 0⟩,
  .input (some (.ident (.var x) r0)) ⟨0, 0⟩,
  .output (.prim vx)]]⟩

/-- `f takes x { say x; give back x + 1 }; say f(1); say it; say 9` — fails at `say it` -/
def callThenError : Program Int := ⟨[blk [
  .func f r0 [(x, r0)] (blk [.output (.prim vx), .ret (.bin .plus (.prim vx) (num 1) [])]),
  .output (.prim (.call f r0 [num 1])),
  .output (.prim (.ident .pronoun r0)),
  .output (num 9)]]⟩

end FlowExamples
end Rrss
