/-
  Rrss.Lemmas.Mutation — helper lemmas for C07.5: the mutation / rounding statements of
  `Interp.execStmt` unfolded, `mutate` and `roundW` always return, the assigning writer.
-/
import Rrss.Lemmas.EnvFrame
import Rrss.Lemmas.Cast
namespace Rrss
namespace Interp
variable [CharOps] {N : Type} [NumOps N]
open Env

theorem execStmt_mutation_eq (rec : Rec N) (op : MutOp) (operand : Primary N)
    (dest : Option (Lhs N)) (param : Option (Expr N)) (st : ExecSt N) :
    execStmt rec (.mutation op operand dest param) st =
      (tick >>= fun _ => evalOpt rec param >>= fun p =>
        match dest with
        | some d =>
          rec.evalPrimary operand >>= fun v =>
          M.liftV (mutate op v p) >>= fun v' =>
          fatal (writeLhs rec (assignW v') d) >>= fun _ => pure st
        | none =>
          fatal (rec.writePrimary (liftW fun v => mutate op v p) operand) >>= fun _ =>
            pure st) := by
  unfold execStmt
  cases dest <;> rfl

theorem execStmt_rounding_eq (rec : Rec N) (dir : RoundDir) (operand : Expr N) (st : ExecSt N) :
    execStmt rec (.rounding dir operand) st =
      (tick >>= fun _ => fatal (rec.writeExpr (liftW (roundW dir)) operand) >>= fun _ =>
        pure st) := by
  unfold execStmt
  rfl

omit [CharOps] in
theorem mutate_returns (op : MutOp) (v : Val N) (p : Option (Val N)) :
    (mutate op v p).returns = true := by
  cases op
  · exact Val.split_returns v p
  · exact Val.join_returns v p
  · exact Val.cast_returns v p

omit [CharOps] in
theorem roundW_returns (dir : RoundDir) (v : Val N) : (roundW dir v).returns = true := by
  cases dir
  · exact Val.roundUp_returns v
  · exact Val.roundDown_returns v
  · exact Val.roundNearest_returns v

omit [CharOps] [NumOps N] in
/-- a returning operation is `ok` or `err` -/
theorem returns_cases {α : Type} (r : VRes N α) (h : r.returns = true) :
    (∃ a, r = .ok a) ∨ (∃ e, r = .err e) := by
  cases r <;> simp_all [Outcome.returns]

omit [CharOps] in
theorem updateAt_assignW_nil (cap : Nat) (x cur : Val N) :
    Val.updateAt cap (assignW x) [] cur = (x, .ok none) := rfl

omit [CharOps] in
theorem updateAt_liftW_nil_ok (cap : Nat) (f : Val N → VRes N (Val N)) (cur v' : Val N)
    (h : f cur = .ok v') : Val.updateAt cap (liftW f) [] cur = (v', .ok none) := by
  simp [Val.updateAt, liftW, h, Outcome.map]

omit [CharOps] in
theorem updateAt_liftW_nil_err (cap : Nat) (f : Val N → VRes N (Val N)) (cur : Val N)
    (e : ValErr N) (h : f cur = .err e) :
    Val.updateAt cap (liftW f) [] cur = (cur, .err e) := by
  simp [Val.updateAt, liftW, h, Outcome.map]

omit [CharOps] [NumOps N] in
/-- a lifted operation that never crashes gives a writer that never crashes -/
theorem liftW_no_crash (f : Val N → VRes N (Val N)) (hf : ∀ v, (f v).returns = true)
    (c : Val N) (s : Site) : liftW f c ≠ .crash s := by
  have := hf c
  cases h : f c <;> simp_all [liftW, Outcome.map, Outcome.returns]

omit [NumOps N] in
/-- binding a variable to the value it already has changes no lookup -/
theorem lookupVarIn_setVarIn_self (x z : VarName) (cur : Val N) (scopes : List (Scope N))
    (h : lookupVarIn x scopes = .ok cur) :
    lookupVarIn z (setVarIn x cur scopes) = lookupVarIn z scopes := by
  by_cases hz : z.key = x.key
  · have h1 := lookupVarIn_setVarIn_same x cur cur scopes h
    -- `lookupVarIn` depends on the name only through its key, except in error messages
    induction scopes with
    | nil => rfl
    | cons s rest ih =>
      simp only [setVarIn]
      cases hs : slookup x.key s with
      | some e =>
        simp only [lookupVarIn, hs] at h
        cases e with
        | var v0 =>
          simp only at h
          cases h
          simp only [lookupVarIn, hz, slookup_sset_same, hs]
        | func ps b => simp at h
      | none =>
        simp only [lookupVarIn, hs] at h
        simp only [lookupVarIn, hz, hs]
        have h1' : lookupVarIn x (setVarIn x cur rest) = .ok cur :=
          lookupVarIn_setVarIn_same x cur cur rest h
        exact ih h h1'
  · exact lookupVarIn_setVarIn_other x z cur scopes hz

end Interp
end Rrss
