/-
  Rrss.Lemmas.ValWF — well-formedness of values: the keys of every dictionary, at every
  depth, are pairwise distinct (the invariant a Rust `HashMap` has by construction), and
  its preservation by every operation of the model that builds an array.
-/
import Rrss.Val
import Rrss.Interp
set_option linter.unusedSectionVars false
namespace Rrss
namespace Val
open NumOps
section
variable {N : Type}

mutual
/-- Every dictionary inside the value (at any depth) has pairwise distinct keys. -/
def WF : Val N → Prop
  | arr s d => WFList s ∧ WFDict d ∧ (d.map Prod.fst).Nodup
  | _ => True
def WFList : List (Val N) → Prop
  | [] => True
  | v :: vs => WF v ∧ WFList vs
def WFDict : List (Key × Val N) → Prop
  | [] => True
  | (_, v) :: rest => WF v ∧ WFDict rest
end

theorem WFList_iff (l : List (Val N)) : WFList l ↔ ∀ v ∈ l, WF v := by
  induction l with
  | nil => simp [WFList]
  | cons a l ih => simp [WFList, ih]

theorem WFDict_iff (d : List (Key × Val N)) : WFDict d ↔ ∀ kv ∈ d, WF kv.2 := by
  induction d with
  | nil => simp [WFDict]
  | cons a l ih => obtain ⟨k, v⟩ := a; simp [WFDict, ih]

theorem WF_arr_iff (s : List (Val N)) (d : List (Key × Val N)) :
    WF (arr s d) ↔ (∀ v ∈ s, WF v) ∧ (∀ kv ∈ d, WF kv.2) ∧ (d.map Prod.fst).Nodup := by
  simp only [WF, WFList_iff, WFDict_iff]

@[simp] theorem WF_undef : WF (undef : Val N) := trivial
@[simp] theorem WF_null : WF (null : Val N) := trivial
@[simp] theorem WF_bool (b : Bool) : WF (bool b : Val N) := trivial
@[simp] theorem WF_num (n : N) : WF (num n : Val N) := trivial
@[simp] theorem WF_str (s : Str) : WF (str s : Val N) := trivial
@[simp] theorem WF_emptyArr : WF (emptyArr : Val N) := by simp [emptyArr, WF, WFList, WFDict]

/-- a value that is not an array is well-formed -/
theorem WF_of_not_arr {v : Val N} (h : v.isArr = false) : WF v := by
  cases v <;> simp_all [isArr]

/-! ### dictionary helpers -/

theorem dlookup_mem {k : Key} {d : List (Key × Val N)} {v : Val N}
    (h : dlookup k d = some v) : (k, v) ∈ d := by
  induction d with
  | nil => simp [dlookup] at h
  | cons a d ih =>
    obtain ⟨k', v'⟩ := a
    simp only [dlookup] at h
    split at h
    · next hk => subst hk; simp at h; simp [h]
    · exact List.mem_cons_of_mem _ (ih h)

theorem dlookup_isSome_iff {k : Key} {d : List (Key × Val N)} :
    (dlookup k d).isSome ↔ k ∈ d.map Prod.fst := by
  induction d with
  | nil => simp [dlookup]
  | cons a d ih =>
    obtain ⟨k', v'⟩ := a
    simp only [dlookup]
    split
    · next hk => simp [hk]
    · next hk => simp [ih, hk]

theorem dlookup_eq_none_iff {k : Key} {d : List (Key × Val N)} :
    dlookup k d = none ↔ k ∉ d.map Prod.fst := by
  rw [← dlookup_isSome_iff]; cases dlookup k d <;> simp

/-- with distinct keys, an entry of the dictionary is what `dlookup` finds -/
theorem dlookup_of_mem {k : Key} {d : List (Key × Val N)} {v : Val N}
    (hn : (d.map Prod.fst).Nodup) (h : (k, v) ∈ d) : dlookup k d = some v := by
  induction d with
  | nil => simp at h
  | cons a d ih =>
    obtain ⟨k', v'⟩ := a
    simp only [List.map_cons, List.nodup_cons] at hn
    simp only [dlookup]
    rcases List.mem_cons.mp h with h1 | h2
    · cases h1; simp
    · have : k ≠ k' := by
        intro e; subst e
        exact hn.1 (List.mem_map.mpr ⟨(k, v), h2, rfl⟩)
      simp [this, ih hn.2 h2]

theorem dset_keys (k : Key) (v : Val N) (d : List (Key × Val N)) :
    (dset k v d).map Prod.fst =
      if k ∈ d.map Prod.fst then d.map Prod.fst else d.map Prod.fst ++ [k] := by
  induction d with
  | nil => simp [dset]
  | cons a d ih =>
    obtain ⟨k', v'⟩ := a
    simp only [dset]
    split
    · next hk => subst hk; simp
    · next hk =>
      simp only [List.map_cons, ih, List.mem_cons, hk, false_or]
      split <;> simp

theorem dset_nodup (k : Key) (v : Val N) {d : List (Key × Val N)}
    (h : (d.map Prod.fst).Nodup) : ((dset k v d).map Prod.fst).Nodup := by
  rw [dset_keys]
  split
  · exact h
  · next hk =>
    rw [List.nodup_append]
    refine ⟨h, by simp, ?_⟩
    intro a ha b hb
    simp at hb; subst hb
    intro e; subst e; exact hk ha

theorem mem_dset {k : Key} {v : Val N} {d : List (Key × Val N)} {kv : Key × Val N}
    (h : kv ∈ dset k v d) : kv ∈ d ∨ kv = (k, v) := by
  induction d with
  | nil => simp [dset] at h; simp [h]
  | cons a d ih =>
    obtain ⟨k', v'⟩ := a
    simp only [dset] at h
    split at h
    · next hk =>
      subst hk
      rcases List.mem_cons.mp h with h | h
      · exact .inr h
      · exact .inl (List.mem_cons_of_mem _ h)
    · rcases List.mem_cons.mp h with h | h
      · exact .inl (h ▸ List.mem_cons_self)
      · rcases ih h with h | h
        · exact .inl (List.mem_cons_of_mem _ h)
        · exact .inr h

theorem WFDict_dset {k : Key} {v : Val N} {d : List (Key × Val N)}
    (hv : WF v) (hd : WFDict d) : WFDict (dset k v d) := by
  rw [WFDict_iff] at hd ⊢
  intro kv h
  rcases mem_dset h with h | h
  · exact hd kv h
  · subst h; exact hv

/-- `dset` keeps an array well-formed -/
theorem WF_dset {k : Key} {v : Val N} {s : List (Val N)} {d : List (Key × Val N)}
    (hv : WF v) (h : WF (arr s d)) : WF (arr s (dset k v d)) := by
  simp only [WF] at h ⊢
  exact ⟨h.1, WFDict_dset hv h.2.1, dset_nodup k v h.2.2⟩

theorem WF_dlookup {k : Key} {d : List (Key × Val N)} (hd : WFDict d) :
    WF ((dlookup k d).getD undef) := by
  cases h : dlookup k d with
  | none => simp
  | some v => exact (WFDict_iff d).mp hd _ (dlookup_mem h)

end

section
variable {N : Type} [NumOps N]

theorem WFList_set {l : List (Val N)} {i : Nat} {v : Val N} (hl : WFList l) (hv : WF v) :
    WFList (l.set i v) := by
  rw [WFList_iff] at hl ⊢
  intro x hx
  rcases List.mem_or_eq_of_mem_set hx with h | h
  · exact hl x h
  · exact h ▸ hv

theorem WFList_extendTo {l : List (Val N)} (n : Nat) (hl : WFList l) : WFList (extendTo l n) := by
  rw [WFList_iff] at hl ⊢
  intro x hx
  simp only [extendTo, List.mem_append, List.mem_replicate] at hx
  rcases hx with h | h
  · exact hl x h
  · rw [h.2]; trivial

theorem WFList_append {l m : List (Val N)} (hl : WFList l) (hm : WFList m) : WFList (l ++ m) := by
  rw [WFList_iff] at hl hm ⊢
  intro x hx
  rcases List.mem_append.mp hx with h | h
  · exact hl x h
  · exact hm x h

/-- `array_coerce` keeps values well-formed -/
theorem WF_arrayCoerce {v : Val N} (h : WF v) : WF (arrayCoerce v) := by
  cases v <;> simp_all [arrayCoerce, WF, WFList, WFDict]

/-- `push` keeps values well-formed -/
theorem WF_push {v r : Val N} {vals : List (Val N)} (h : WF v) (hv : WFList vals)
    (hp : push v vals = .ok r) : WF r := by
  have hc := WF_arrayCoerce h
  simp only [push] at hp
  split at hp
  · next s d heq =>
    cases hp
    rw [heq] at hc
    simp only [WF] at hc ⊢
    exact ⟨WFList_append hc.1 hv, hc.2⟩
  · cases hp

/-- `pop` yields a well-formed element and a well-formed rest -/
theorem WF_pop {v x rest : Val N} (h : WF v) (hp : pop v = .ok (x, rest)) : WF x ∧ WF rest := by
  unfold pop at hp
  split at hp
  · cases hp; simp only [WF, WFList] at h ⊢; exact ⟨h.1.1, h.1.2, h.2⟩
  · cases hp; exact ⟨trivial, h⟩
  · cases hp

theorem WFList_map_str (l : List Str) : WFList (l.map (str : Str → Val N)) := by
  rw [WFList_iff]; intro v hv
  obtain ⟨s, -, rfl⟩ := List.mem_map.mp hv; trivial

/-- `split` yields a well-formed array (of strings, with an empty dictionary) -/
theorem WF_split {v r : Val N} {delim : Option (Val N)} (hp : split v delim = .ok r) : WF r := by
  unfold split at hp
  split at hp
  · split at hp
    · split at hp <;> first | cases hp; exact WF_emptyArr | cases hp
    · split at hp
      · cases hp; simp only [WF, WFDict]; exact ⟨WFList_map_str _, trivial, by simp⟩
      · cases hp
      · cases hp; simp only [WF, WFDict]; exact ⟨WFList_map_str _, trivial, by simp⟩
  · cases hp

/-- reading an element of a well-formed value yields a well-formed value -/
theorem WF_index {v k r : Val N} (h : WF v) (hp : index v k = .ok r) : WF r := by
  unfold index at hp
  split at hp
  · split at hp
    · cases hp; split <;> trivial
    · cases hp
  · next seq dict =>
    have hs := (WF_arr_iff _ _).mp h
    split at hp
    · next n =>
      cases hp
      cases hi : seq[toUSize n]? with
      | none => simp
      | some x => simp only [Option.getD_some]; exact hs.1 x (List.mem_of_getElem? hi)
    · cases hp
    · split at hp
      · cases hp; exact WF_dlookup ((WFDict_iff _).mpr hs.2.1)
      · cases hp
  · cases hp

theorem updateAt_undef {β : Type} (cap : Nat) (f : Val N → VRes N (Val N × β))
    (k : Val N) (ks : List (Val N)) :
    updateAt cap f (k :: ks) undef = updateAt cap f (k :: ks) (arr [] []) := by
  simp only [updateAt, emptyArr]

theorem WF_updateAt_arr {β : Type} (cap : Nat) (f : Val N → VRes N (Val N × β))
    (k : Val N) (ks : List (Val N)) (ih : ∀ v : Val N, WF v → WF (updateAt cap f ks v).1)
    (seq : List (Val N)) (dict : List (Key × Val N)) (h0 : WF (arr seq dict)) :
    WF (updateAt cap f (k :: ks) (arr seq dict)).1 := by
  have hs := h0
  simp only [WF] at hs
  simp only [updateAt]
  split
  · next n =>
    split
    · exact h0
    · split
      · exact h0
      · split
        · exact h0
        · next cell hcell =>
          have hseq' : WFList (if toUSize n ≥ seq.length then extendTo seq (toUSize n + 1) else seq) := by
            split
            · exact WFList_extendTo _ hs.1
            · exact hs.1
          have hc : WF cell := (WFList_iff _).mp hseq' cell (List.mem_of_getElem? hcell)
          have := ih cell hc
          simp only [WF]
          exact ⟨WFList_set hseq' this, hs.2⟩
  · exact h0
  · split
    · next key _ =>
      have hc : WF ((dlookup key dict).getD undef) := WF_dlookup hs.2.1
      exact WF_dset (ih _ hc) h0
    · exact h0

/-- The write path keeps values well-formed: if the closure `f` maps well-formed cells to
    well-formed cells, `updateAt` maps a well-formed value to a well-formed value (also when it
    fails: the partial update that stays is well-formed). -/
theorem WF_updateAt {β : Type} (cap : Nat) (f : Val N → VRes N (Val N × β))
    (hf : ∀ c c' b, WF c → f c = .ok (c', b) → WF c') :
    ∀ (ks : List (Val N)) (v : Val N), WF v → WF (updateAt cap f ks v).1 := by
  intro ks
  induction ks with
  | nil =>
    intro v hv
    simp only [updateAt]
    split
    · next v' b heq => exact hf _ _ _ hv heq
    all_goals exact hv
  | cons k ks ih =>
    intro v hv
    cases v with
    | undef => rw [updateAt_undef]; exact WF_updateAt_arr cap f k ks ih [] [] WF_emptyArr
    | arr seq dict => exact WF_updateAt_arr cap f k ks ih seq dict hv
    | null => simp [updateAt]
    | bool b => simp [updateAt]
    | num n => simp [updateAt]
    | str s => simp [updateAt]

/-- literals are well-formed -/
theorem WF_evalLit [CharOps] (l : Lit N) : WF (Interp.evalLit l) := by
  cases l <;> trivial

end
end Val
end Rrss
