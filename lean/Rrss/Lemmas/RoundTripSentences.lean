/-
  Rrss.Lemmas.RoundTripSentences — C02: well-formedness of the example sentences of the spec, and
  the token builders / choices used by the non-vacuity examples of Rrss/Thm/C02.lean.
-/
import Rrss.Lemmas.RoundTripEof
import Rrss.Lemmas.LexerEval
import Rrss.NumInt
namespace Rrss
namespace Grammar
open Parser

set_option linter.unusedSimpArgs false

section
variable {N : Type} [CharOps]

theorem sPrecedence_wf (a b x : VarSpec) (ha : a.wf = true) (hb : b.wf = true) (hx : x.wf = true) :
    (sPrecedence a b x : Expression N).wf = true := by
  simp [sPrecedence, Expression.wf, logicalSyn, comparisonSyn, termSyn, factorSyn, unarySyn, spineSyn, wfOps,
    OpList.wf, OpList.one, Comparison.toLogical, Term.toComparison, Factor.toTerm, Unary.toFactor, Prim.toTerm,
    Prim.toUnary, VarSpec.f, VarSpec.u, VarSpec.t, Unary.wf, Primary.wf, Prim.wf, subsWf, argsWf, chainOK,
    comparisonOps, wfLinks, Unary.startsUn, Unary.edgeCall, Primary.edgeCall, Prim.edgeCall, subsEdgeCall,
    Prim.opensAt, OpList.edgeCall, lastEdge, ha, hb, hx]

theorem sLeftAssoc_wf (a b x : VarSpec) (ha : a.wf = true) (hb : b.wf = true) (hx : x.wf = true) :
    (sLeftAssoc a b x : Expression N).wf = true := by
  simp [sLeftAssoc, Expression.wf, logicalSyn, comparisonSyn, termSyn, factorSyn, unarySyn, spineSyn, wfOps,
    OpList.wf, OpList.one, Comparison.toLogical, Term.toComparison, Factor.toTerm, Unary.toFactor, Prim.toTerm,
    Prim.toUnary, VarSpec.f, VarSpec.u, VarSpec.t, Unary.wf, Primary.wf, Prim.wf, subsWf, argsWf, chainOK,
    comparisonOps, wfLinks, Unary.startsUn, Unary.edgeCall, Primary.edgeCall, Prim.edgeCall, subsEdgeCall,
    Prim.opensAt, OpList.edgeCall, lastEdge, ha, hb, hx]

theorem sList_wf (a b x : VarSpec) (ha : a.wf = true) (hb : b.wf = true) (hx : x.wf = true) :
    (sList a b x : Expression N).wf = true := by
  simp [sList, Expression.wf, logicalSyn, comparisonSyn, termSyn, factorSyn, unarySyn, spineSyn, wfOps,
    OpList.wf, OpList.one, Comparison.toLogical, Term.toComparison, Factor.toTerm, Unary.toFactor, Prim.toTerm,
    Prim.toUnary, VarSpec.f, VarSpec.u, VarSpec.t, Unary.wf, Primary.wf, Prim.wf, subsWf, argsWf, chainOK,
    comparisonOps, wfLinks, Unary.startsUn, Unary.edgeCall, Primary.edgeCall, Prim.edgeCall, subsEdgeCall,
    Prim.opensAt, OpList.edgeCall, lastEdge, ha, hb, hx]

theorem sListNearest_wf (a b x y : VarSpec) (ha : a.wf = true) (hb : b.wf = true) (hx : x.wf = true)
    (hy : y.wf = true) : (sListNearest a b x y : Expression N).wf = true := by
  simp [sListNearest, Expression.wf, logicalSyn, comparisonSyn, termSyn, factorSyn, unarySyn, spineSyn, wfOps,
    OpList.wf, OpList.one, Comparison.toLogical, Term.toComparison, Factor.toTerm, Unary.toFactor, Prim.toTerm,
    Prim.toUnary, VarSpec.f, VarSpec.u, VarSpec.t, Unary.wf, Primary.wf, Prim.wf, subsWf, argsWf, chainOK,
    comparisonOps, wfLinks, Unary.startsUn, Unary.edgeCall, Primary.edgeCall, Prim.edgeCall, subsEdgeCall,
    Prim.opensAt, OpList.edgeCall, lastEdge, ha, hb, hx, hy]

theorem sArgs_wf (f x y : VarSpec) (hf : f.wf = true) (hx : x.wf = true) (hy : y.wf = true) :
    (sArgs f x y : Expression N).wf = true := by
  simp [sArgs, Expression.wf, logicalSyn, comparisonSyn, termSyn, factorSyn, unarySyn, spineSyn, wfOps,
    OpList.wf, OpList.one, Comparison.toLogical, Term.toComparison, Factor.toTerm, Unary.toFactor, Prim.toTerm,
    Prim.toUnary, VarSpec.f, VarSpec.u, VarSpec.t, Unary.wf, Primary.wf, Prim.wf, subsWf, argsWf, chainOK,
    comparisonOps, wfLinks, Unary.startsUn, Unary.edgeCall, Primary.edgeCall, Prim.edgeCall, subsEdgeCall,
    Prim.opensAt, OpList.edgeCall, lastEdge, hf, hx, hy]

theorem sNotIs_wf (x y : VarSpec) (hx : x.wf = true) (hy : y.wf = true) :
    (sNotIs x y : Expression N).wf = true := by
  simp [sNotIs, Expression.wf, logicalSyn, comparisonSyn, termSyn, factorSyn, unarySyn, spineSyn, wfOps,
    OpList.wf, OpList.one, Comparison.toLogical, Term.toComparison, Factor.toTerm, Unary.toFactor, Prim.toTerm,
    Prim.toUnary, VarSpec.f, VarSpec.u, VarSpec.t, Unary.wf, Primary.wf, Prim.wf, subsWf, argsWf, chainOK,
    comparisonOps, wfLinks, Unary.startsUn, Unary.edgeCall, Primary.edgeCall, Prim.edgeCall, subsEdgeCall,
    Prim.opensAt, OpList.edgeCall, lastEdge, hx, hy]

/-! ### programs whose parse does not depend on the templates

  `Fits` is `True` for statements without the peeking constructs (`plain false`), and follows from
  `NoIt` (no template is spelled `it`) if bare `break`s are allowed too (`plain true`). -/

/-- no poetic literal, poetic string, `rock … like`, negative poetic right-hand side; bare `break`
    only if `ab` -/
def SimpleStmt.plain (ab : Bool) : SimpleStmt N → Bool
  | .break_ none => ab
  | .poeticLit _ _ => false
  | .poeticExpr _ e => e.headUnary.poeticStart != some true
  | .poeticStr _ _ _ => false
  | .rockLike _ _ => false
  | _ => true

mutual
def Statement.plain (ab : Bool) : Statement N → Bool
  | .simple s _ => s.plain ab
  | .ifS _ _ t e =>
      stmtsPlain ab t &&
        (match e with
         | some b => stmtsPlain ab b
         | none => true)
  | .whileS _ _ b => stmtsPlain ab b
  | .untilS _ _ b => stmtsPlain ab b
  | .func _ _ _ _ b => stmtsPlain ab b
def stmtsPlain (ab : Bool) : List (Statement N) → Bool
  | [] => true
  | s :: ss => s.plain ab && stmtsPlain ab ss
end

def progPlain (ab : Bool) (bs : List (List (Statement N))) : Bool := bs.all (stmtsPlain ab)

theorem noIt_sub {c : Choices N} (h : c.NoIt) (i : Nat) : (c.sub i).NoIt :=
  fun q => h (i :: q)

theorem simple_plain_fits {ab : Bool} (src : Str) (s : SimpleStmt N) (c : Choices N) (rest : List (Tok N))
    (hp : s.plain ab = true) : s.Fits src c rest := by
  cases s with
  | poeticExpr t e =>
    intro h
    simp [SimpleStmt.plain, h] at hp
  | poeticStr t text junk => simp [SimpleStmt.plain] at hp
  | _ => trivial

theorem simple_plain_peek {ab : Bool} (s : SimpleStmt N) (k : TK) (c' : Choices N) (ts : List (Tok N))
    (hp : s.plain ab = true) (hit : ab = true → c'.NoIt) : s.PeekStop (tk (.kw k) c' :: ts) := by
  cases s with
  | break_ it =>
    cases it with
    | none =>
      intro t ht
      simp only [List.head?_cons, Option.some.injEq] at ht
      subst ht
      exact hit (by simpa [SimpleStmt.plain] using hp) []
    | some it => trivial
  | poeticLit t lit => simp [SimpleStmt.plain] at hp
  | rockLike p lit => simp [SimpleStmt.plain] at hp
  | _ => trivial

theorem stmt_plain_eolOK {ab : Bool} (s : Statement N) (c : Choices N) (hp : s.plain ab = true)
    (hit : ab = true → c.NoIt) : s.EolOK c := by
  cases s with
  | simple s eol =>
    have hp' : s.plain ab = true := hp
    show s.PeekStop (eolToks eol c)
    cases eol with
    | none => exact simple_plain_peek s .newline (c.sub 1) [] hp' (fun h => noIt_sub (hit h) 1)
    | dot => exact simple_plain_peek s .dot (c.sub 0) _ hp' (fun h => noIt_sub (hit h) 0)
    | comma => exact simple_plain_peek s .comma (c.sub 0) _ hp' (fun h => noIt_sub (hit h) 0)
  | _ => trivial

theorem stmt_plain_eolOKE {ab : Bool} (s : Statement N) (c : Choices N) (hp : s.plain ab = true)
    (hit : ab = true → c.NoIt) : s.EolOKE c := by
  cases s with
  | simple s eol =>
    have hp' : s.plain ab = true := hp
    show s.PeekStop (eolPunct eol c)
    cases eol with
    | none =>
      cases s with
      | break_ it =>
        cases it with
        | none => intro t ht; simp [eolPunct] at ht
        | some it => trivial
      | poeticLit t lit => simp [SimpleStmt.plain] at hp'
      | rockLike p lit => simp [SimpleStmt.plain] at hp'
      | _ => trivial
    | dot => exact simple_plain_peek s .dot (c.sub 0) _ hp' (fun h => noIt_sub (hit h) 0)
    | comma => exact simple_plain_peek s .comma (c.sub 0) _ hp' (fun h => noIt_sub (hit h) 0)
  | _ => trivial

omit [CharOps] in
theorem ifS_plain (ab : Bool) (cond : Expression N) (eol : Eol) (t : List (Statement N))
    (e : Option (List (Statement N))) :
    (Statement.ifS cond eol t e).plain ab = (stmtsPlain ab t &&
      (match e with
       | some b => stmtsPlain ab b
       | none => true)) := by
  cases e <;> rfl

mutual
theorem plain_fitsD {ab : Bool} (src : Str) : (s : Statement N) → ∀ (d : Nat) (c : Choices N) (rest : List (Tok N)),
    s.plain ab = true → (ab = true → c.NoIt) → s.FitsD src d c rest
  | .simple s eol, d, c, rest, hp, _ => by
    rw [simple_fitsD]; exact simple_plain_fits src s c rest hp
  | .ifS cond eol t none, d, c, rest, hp, hit => by
    rw [ifS_plain] at hp
    simp only [Bool.and_true] at hp
    rw [ifS_none_fitsD]
    exact plain_linesFitD src t d (c.sub 3) hp (fun h => noIt_sub (hit h) 3)
  | .ifS cond eol t (some b), d, c, rest, hp, hit => by
    rw [ifS_plain] at hp
    simp only [Bool.and_eq_true] at hp
    rw [ifS_some_fitsD]
    exact ⟨plain_linesFit src t (c.sub 3) hp.1 (fun h => noIt_sub (hit h) 3),
      plain_linesFitD src b d (c.sub 6) hp.2 (fun h => noIt_sub (hit h) 6)⟩
  | .whileS cond eol b, d, c, rest, hp, hit => by
    rw [whileS_fitsD]; exact plain_linesFitD src b d (c.sub 3) hp (fun h => noIt_sub (hit h) 3)
  | .untilS cond eol b, d, c, rest, hp, hit => by
    rw [untilS_fitsD]; exact plain_linesFitD src b d (c.sub 3) hp (fun h => noIt_sub (hit h) 3)
  | .func f p ps eol b, d, c, rest, hp, hit => by
    rw [func_fitsD]; exact plain_fnLinesFitD src b d (c.sub 5) hp (fun h => noIt_sub (hit h) 5)
theorem plain_fits {ab : Bool} (src : Str) : (s : Statement N) → ∀ (c : Choices N) (rest : List (Tok N)),
    s.plain ab = true → (ab = true → c.NoIt) → s.Fits src c rest
  | .simple s eol, c, rest, hp, _ => simple_plain_fits src s c rest hp
  | .ifS cond eol t e, c, rest, hp, hit => by
    rw [ifS_plain] at hp
    simp only [Bool.and_eq_true] at hp
    rw [ifS_fits]
    refine ⟨plain_linesFit src t (c.sub 3) hp.1 (fun h => noIt_sub (hit h) 3), ?_⟩
    cases e with
    | none => trivial
    | some b => exact plain_linesFit src b (c.sub 6) hp.2 (fun h => noIt_sub (hit h) 6)
  | .whileS cond eol b, c, rest, hp, hit => plain_linesFit src b (c.sub 3) hp (fun h => noIt_sub (hit h) 3)
  | .untilS cond eol b, c, rest, hp, hit => plain_linesFit src b (c.sub 3) hp (fun h => noIt_sub (hit h) 3)
  | .func f p ps eol b, c, rest, hp, hit => plain_fnLinesFit src b (c.sub 5) hp (fun h => noIt_sub (hit h) 5)
theorem plain_linesFit {ab : Bool} (src : Str) : (ls : List (Statement N)) → ∀ (c : Choices N),
    stmtsPlain ab ls = true → (ab = true → c.NoIt) → linesFit src ls c
  | [], c, _, _ => trivial
  | s :: ss, c, hp, hit => by
    have hp' : (s.plain ab && stmtsPlain ab ss) = true := hp
    simp only [Bool.and_eq_true] at hp'
    rw [linesFit_cons]
    exact ⟨plain_fits src s (c.sub 0) _ hp'.1 (fun h => noIt_sub (hit h) 0),
      stmt_plain_eolOK s (c.sub 1) hp'.1 (fun h => noIt_sub (hit h) 1),
      plain_linesFit src ss (c.sub 2) hp'.2 (fun h => noIt_sub (hit h) 2)⟩
theorem plain_fnLinesFit {ab : Bool} (src : Str) : (ls : List (Statement N)) → ∀ (c : Choices N),
    stmtsPlain ab ls = true → (ab = true → c.NoIt) → fnLinesFit src ls c
  | [], c, _, _ => trivial
  | s :: ss, c, hp, hit => by
    have hp' : (s.plain ab && stmtsPlain ab ss) = true := hp
    simp only [Bool.and_eq_true] at hp'
    rw [fnLinesFit_cons]
    refine ⟨?_, plain_fnLinesFit src ss (c.sub 2) hp'.2 (fun h => noIt_sub (hit h) 2)⟩
    split
    · exact plain_fits src s (c.sub 0) _ hp'.1 (fun h => noIt_sub (hit h) 0)
    · exact ⟨plain_fits src s (c.sub 0) _ hp'.1 (fun h => noIt_sub (hit h) 0),
        stmt_plain_eolOK s (c.sub 1) hp'.1 (fun h => noIt_sub (hit h) 1)⟩
theorem plain_linesFitD {ab : Bool} (src : Str) : (ls : List (Statement N)) → ∀ (d : Nat) (c : Choices N),
    stmtsPlain ab ls = true → (ab = true → c.NoIt) → linesFitD src d ls c
  | [], d, c, _, _ => by cases d <;> trivial
  | [s], 0, c, hp, hit => by
    have hp' : (s.plain ab && stmtsPlain ab []) = true := hp
    simp only [Bool.and_eq_true] at hp'
    rw [linesFitD_one_zero]
    exact ⟨plain_fits src s (c.sub 0) _ hp'.1 (fun h => noIt_sub (hit h) 0),
      stmt_plain_eolOK s (c.sub 1) hp'.1 (fun h => noIt_sub (hit h) 1)⟩
  | [s], d + 1, c, hp, hit => by
    have hp' : (s.plain ab && stmtsPlain ab []) = true := hp
    simp only [Bool.and_eq_true] at hp'
    rw [linesFitD_one_succ]
    exact ⟨plain_fitsD src s d (c.sub 0) _ hp'.1 (fun h => noIt_sub (hit h) 0),
      stmt_plain_eolOKE s (c.sub 1) hp'.1 (fun h => noIt_sub (hit h) 1)⟩
  | s :: s' :: ss, d, c, hp, hit => by
    have hp' : (s.plain ab && stmtsPlain ab (s' :: ss)) = true := hp
    simp only [Bool.and_eq_true] at hp'
    rw [linesFitD_cons]
    exact ⟨plain_fits src s (c.sub 0) _ hp'.1 (fun h => noIt_sub (hit h) 0),
      stmt_plain_eolOK s (c.sub 1) hp'.1 (fun h => noIt_sub (hit h) 1),
      plain_linesFitD src (s' :: ss) d (c.sub 2) hp'.2 (fun h => noIt_sub (hit h) 2)⟩
theorem plain_fnLinesFitD {ab : Bool} (src : Str) : (ls : List (Statement N)) → ∀ (d : Nat) (c : Choices N),
    stmtsPlain ab ls = true → (ab = true → c.NoIt) → fnLinesFitD src d ls c
  | [], d, c, _, _ => by cases d <;> trivial
  | [s], d, c, hp, hit => by
    have hp' : (s.plain ab && stmtsPlain ab []) = true := hp
    simp only [Bool.and_eq_true] at hp'
    rw [fnLinesFitD_one]
    split
    · exact plain_fitsD src s d (c.sub 0) _ hp'.1 (fun h => noIt_sub (hit h) 0)
    · exact plain_linesFitD src [s] d c hp hit
  | s :: s' :: ss, d, c, hp, hit => by
    have hp' : (s.plain ab && stmtsPlain ab (s' :: ss)) = true := hp
    simp only [Bool.and_eq_true] at hp'
    rw [fnLinesFitD_cons]
    exact ⟨plain_fits src s (c.sub 0) _ hp'.1 (fun h => noIt_sub (hit h) 0),
      stmt_plain_eolOK s (c.sub 1) hp'.1 (fun h => noIt_sub (hit h) 1),
      plain_fnLinesFitD src (s' :: ss) d (c.sub 2) hp'.2 (fun h => noIt_sub (hit h) 2)⟩
end

theorem plain_progFits {ab : Bool} (src : Str) : ∀ (bs : List (List (Statement N))) (c : Choices N),
    progPlain ab bs = true → (ab = true → c.NoIt) → progFits src bs c
  | [], c, _, _ => trivial
  | b :: bs, c, hp, hit => by
    simp only [progPlain, List.all_cons, Bool.and_eq_true] at hp
    exact ⟨plain_linesFit src b (c.sub 1) hp.1 (fun h => noIt_sub (hit h) 1),
      plain_progFits src bs (c.sub 3) (by simpa [progPlain] using hp.2) (fun h => noIt_sub (hit h) 3)⟩

theorem plain_progFitsD {ab : Bool} (src : Str) (d : Nat) : ∀ (bs : List (List (Statement N))) (c : Choices N),
    progPlain ab bs = true → (ab = true → c.NoIt) → progFitsD src d bs c
  | [], c, _, _ => trivial
  | [b], c, hp, hit => by
    simp only [progPlain, List.all_cons, Bool.and_eq_true] at hp
    exact plain_linesFitD src b d (c.sub 1) hp.1 (fun h => noIt_sub (hit h) 1)
  | b :: b' :: bs, c, hp, hit => by
    simp only [progPlain, List.all_cons, Bool.and_eq_true] at hp
    exact ⟨plain_linesFit src b (c.sub 1) hp.1 (fun h => noIt_sub (hit h) 1),
      plain_progFitsD src d (b' :: bs) (c.sub 3) (by simpa [progPlain] using hp.2) (fun h => noIt_sub (hit h) 3)⟩

theorem plain_progFitsE {ab : Bool} (src : Str) (bs : List (List (Statement N))) (c : Choices N)
    (hp : progPlain ab bs = true) (hit : ab = true → c.NoIt) : progFitsE src bs c :=
  plain_progFitsD src _ bs c hp hit

theorem plain_fitsE {ab : Bool} (src : Str) (s : Statement N) (c : Choices N)
    (hp : s.plain ab = true) (hit : ab = true → c.NoIt) : s.FitsE src c :=
  plain_fitsD src s _ c [] hp hit

end

/-! ### for the examples: ASCII characters, integer numbers -/

namespace Ex
open Lexer

/-- a `Word` token -/
def w (s : Str) : Tok Int := plainTok .word s 0 default
/-- a keyword token (spelling irrelevant) -/
def k (kd : TK) : Tok Int := plainTok kd [] 0 default
/-- a number token -/
def num (n : Int) : Tok Int := { (plainTok .number [] 0 default : Tok Int) with num := some n }
/-- initial state over hand-built tokens -/
def st0 (toks : List (Tok Int)) : PState Int := ⟨[], toks, ⟨1, 0, 0⟩, ⟨1, 0, 0⟩, false⟩
/-- the tree of a simple variable, no range -/
def v (s : Str) : Expr Int := .prim (.ident (.var (.simple s)) default)
/-- the tree of a number, no range -/
def lit (n : Int) : Expr Int := .prim (.lit (.num n) default)

local instance : CharOps := asciiOps

/-- run `parse_expression` of the model: the tree without ranges and the kinds left over -/
def runE (n : Nat) (toks : List (Tok Int)) : Option (Expr Int × List TK) :=
  match parseExpression (parser n) (st0 toks) with
  | .ok (t, st') => some (t.eraseRanges, st'.toks.map (·.kind))
  | _ => none

/-- run `parse_statement` of the model -/
def runS (n : Nat) (toks : List (Tok Int)) : Option (Option (Stmt Int) × List TK) :=
  match parseStatement (parser n) (st0 toks) with
  | .ok (s, st') => some (s.map eraseS, st'.toks.map (·.kind))
  | _ => none

/-- run `Parser::parse` of the model -/
def runP (n : Nat) (toks : List (Tok Int)) : Option (List (Block Int)) :=
  match parseProgramBody (parser n) (st0 toks) with
  | .ok (p, _) => some (p.code.map eraseB)
  | _ => none

/-- choices: always the first alternative, every token at position 0 -/
def c0 : Choices Int := ⟨fun _ => 0, fun _ => k .error⟩
/-- choices: always the second alternative (`with`, `, and`, `'s`, …) -/
def c1 : Choices Int := ⟨fun _ => 1, fun _ => k .error⟩

def va (s : Str) : VarSpec := .simple s

theorem c0_sane : c0.Sane [] := fun _ => show SnapOK [] (k .error).after from ⟨by decide, by decide⟩
theorem c1_sane : c1.Sane [] := fun _ => show SnapOK [] (k .error).after from ⟨by decide, by decide⟩
theorem c0_noIt : c0.NoIt := fun _ =>
  show (CharOps.lower (k .error).spelling == str% "it") = false from by decide
theorem c1_noIt : c1.NoIt := fun _ =>
  show (CharOps.lower (k .error).spelling == str% "it") = false from by decide

/-- `say <n>` with a line end -/
def sayS (n : Int) (eol : Eol) : Statement Int :=
  .simple (.say (Comparison.toLogical (Term.toComparison (Prim.toTerm (.lit (.num n)))))) eol
/-- the expression `x` -/
def xE : Expression Int := Comparison.toLogical (Term.toComparison (va (str% "x")).t)
/-- `f takes p, q / if x / give x / else / say 4` -/
def funEx : Statement Int :=
  .func (va (str% "f")) (va (str% "p")) [va (str% "q")] .none
    [.ifS xE .none [.simple (.ret (str% "give") xE) .none] (some [sayS 4 .none])]
/-- two top-level blocks: `if x / say 1. / else / say 2 / <blank> / say 3,` and the function above -/
def progEx : List (List (Statement Int)) :=
  [[.ifS xE .none [sayS 1 .dot] (some [sayS 2 .none]), sayS 3 .comma], [funEx]]
/-- `a with b times x, and y` … -/
def eEx : Expression Int := sListNearest (va (str% "a")) (va (str% "b")) (va (str% "x")) (va (str% "y"))

/-! #### poetic statements -/

/-- the target `x` -/
def xT : Target Int := ⟨.var (va (str% "x")), []⟩
/-- the target `Tommy` -/
def tommyT : Target Int := ⟨.var (va (str% "Tommy")), []⟩
/-- `a lovestruck ladykiller` -/
def tommyLit : List PoeticItem :=
  [.word (str% "a") .commonPrefix, .word (str% "lovestruck") .word, .word (str% "ladykiller") .word]
/-- `Tommy was a lovestruck ladykiller` -/
def tommyS : SimpleStmt Int := .poeticLit tommyT tommyLit
/-- `x says hello world` -/
def saysS : SimpleStmt Int := .poeticStr xT (str% "hello world") [.word, .word]
/-- the primary expression `x` -/
def xP : Grammar.Primary Int := .mk (.var (va (str% "x"))) []
/-- `a rolling stone` -/
def stoneLit : List PoeticItem :=
  [.word (str% "a") .commonPrefix, .word (str% "rolling") .word, .word (str% "stone") .word]
/-- `rock x like a rolling stone` -/
def rockS : SimpleStmt Int := .rockLike xP stoneLit
/-- the expression `-5` -/
def minusFive : Expression Int :=
  Comparison.toLogical (Term.toComparison (Factor.toTerm (Unary.toFactor (.mk [.minus] (.mk (.lit (.num 5)) [])))))
/-- `x is -5` -/
def negS : SimpleStmt Int := .poeticExpr xT minusFive

/-- the source text of `saysS` alone -/
def saysSrc : Str := str% "x says hello world"
/-- choices for `saysS` alone: the `says` token starts at byte 2 and is spelled `says` -/
def cSays : Choices Int :=
  ⟨fun _ => 0, fun p => if p = [1] then { (k .error : Tok Int) with spelling := str% "says", start := 2 } else k .error⟩
/-- choices in which every template is spelled `-` (for `x is -5`) -/
def cHy : Choices Int := ⟨fun _ => 0, fun _ => { (k .error : Tok Int) with spelling := ['-'] }⟩

theorem snapOK_default (src : Str) : SnapOK src ⟨1, 0, 0⟩ := ⟨Nat.zero_le _, Nat.le_refl _⟩

theorem cSays_sane : cSays.Sane saysSrc := fun p => by
  show SnapOK saysSrc (if p = [1] then _ else _ : Tok Int).after
  split <;> exact snapOK_default _
theorem cHy_sane : cHy.Sane [] := fun _ => snapOK_default _

/-- a block with all of them, and a bare `break`:
    `Tommy was a lovestruck ladykiller / x says hello world / rock x like a rolling stone / x is -5 / break` -/
def poeticProg : List (List (Statement Int)) :=
  [[.simple tommyS .none, .simple saysS .none, .simple rockS .none, .simple negS .none,
    .simple (.break_ none) .none]]
/-- its source text -/
def poeticSrc : Str :=
  str% "Tommy was a lovestruck ladykiller\nx says hello world\nrock x like a rolling stone\nx is -5\nbreak\n"
/-- choices for it: the `says` token (byte 36, spelled `says`), the `Newline` after its line (byte 52),
    the hyphen of `-5` (spelled `-`); everything else as in `c0` -/
def cPoetic : Choices Int :=
  ⟨fun _ => 0, fun p =>
    if p = [1, 2, 0, 1] then { (k .error : Tok Int) with spelling := str% "says", start := 36 }
    else if p = [1, 2, 1, 1] then { (k .error : Tok Int) with start := 52 }
    else if p = [1, 2, 2, 2, 0, 2, 0, 0, 0, 0, 0, 0] then { (k .error : Tok Int) with spelling := ['-'] }
    else k .error⟩

theorem cPoetic_sane : cPoetic.Sane poeticSrc := fun p => by
  show SnapOK poeticSrc (if p = [1, 2, 0, 1] then _ else if p = [1, 2, 1, 1] then _
    else if p = [1, 2, 2, 2, 0, 2, 0, 0, 0, 0, 0, 0] then _ else _ : Tok Int).after
  split
  · exact snapOK_default _
  · split
    · exact snapOK_default _
    · split <;> exact snapOK_default _

/-- a one-line statement without subscripts whose end-of-line template is harmless -/
theorem peek_k (s : SimpleStmt Int) (c : Choices Int) (h : (c.sub 1).here = k .error) :
    (Statement.simple s .none).EolOK c := by
  show s.PeekStop [tk (.kw .newline) (c.sub 1)]
  have hsp : (tk (.kw .newline) (c.sub 1) : Tok Int).spelling = [] := by
    rw [tk_kw_spelling, h]; rfl
  have hkd : (tk (.kw .newline) (c.sub 1) : Tok Int).kind = .newline := rfl
  cases s with
  | break_ it =>
    cases it with
    | none =>
      intro t ht
      simp only [List.head?_cons, Option.some.injEq] at ht
      subst ht
      rw [hsp]; decide
    | some it => trivial
  | poeticLit t lit =>
    intro t ht
    simp only [List.head?_cons, Option.some.injEq] at ht
    subst ht
    simp only [continuesPoetic, hsp, hkd]
    decide
  | rockLike p lit =>
    intro t ht
    simp only [List.head?_cons, Option.some.injEq] at ht
    subst ht
    simp only [continuesPoetic, hsp, hkd]
    decide
  | _ => trivial

theorem poeticProg_fits : progFits poeticSrc poeticProg cPoetic := by
  refine ⟨⟨trivial, peek_k _ _ rfl, ⟨?_, trivial, ⟨trivial, peek_k _ _ rfl, ⟨?_, trivial,
    ⟨trivial, peek_k _ _ rfl, trivial⟩⟩⟩⟩⟩, trivial⟩
  · show lineText poeticSrc 36 [_] = some _
    decide +kernel
  · intro _ t ht
    have : t = tk (.kw .minus) (cPoetic.sub 1 |>.sub 2 |>.sub 2 |>.sub 2 |>.sub 0 |>.sub 2 |>.sub 0 |>.sub 0
        |>.sub 0 |>.sub 0 |>.sub 0 |>.sub 0) := by
      simpa [unparse, logicalSyn, comparisonSyn, termSyn, factorSyn, unarySyn, spineSyn, minusFive,
        Comparison.toLogical, Term.toComparison, Factor.toTerm, Unary.toFactor, Unary.toks, unopsToks,
        unopKind, opsToks] using ht.symm
    rw [this]; rfl

end Ex

end Grammar
end Rrss
