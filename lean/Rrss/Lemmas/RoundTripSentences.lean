/-
  Rrss.Lemmas.RoundTripSentences — C02: well-formedness of the example sentences of the spec, and
  the token builders / choices used by the non-vacuity examples of Rrss/Thm/C02.lean.
-/
import Rrss.Lemmas.RoundTripEof
import Rrss.Lemmas.LexerEval
import Rrss.NumInt
namespace Rrss
namespace Grammar
open Parser

set_option linter.unusedSimpArgs false

section
variable {N : Type} [CharOps]

theorem sPrecedence_wf (a b x : VarSpec) (ha : a.wf = true) (hb : b.wf = true) (hx : x.wf = true) :
    (sPrecedence a b x : Expression N).wf = true := by
  simp [sPrecedence, Expression.wf, logicalSyn, comparisonSyn, termSyn, factorSyn, unarySyn, spineSyn, wfOps,
    OpList.wf, OpList.one, Comparison.toLogical, Term.toComparison, Factor.toTerm, Unary.toFactor, Prim.toTerm,
    Prim.toUnary, VarSpec.f, VarSpec.u, VarSpec.t, Unary.wf, Primary.wf, Prim.wf, subsWf, argsWf, chainOK,
    comparisonOps, wfLinks, Unary.startsUn, Unary.edgeCall, Primary.edgeCall, Prim.edgeCall, subsEdgeCall,
    Prim.opensAt, OpList.edgeCall, lastEdge, ha, hb, hx]

theorem sLeftAssoc_wf (a b x : VarSpec) (ha : a.wf = true) (hb : b.wf = true) (hx : x.wf = true) :
    (sLeftAssoc a b x : Expression N).wf = true := by
  simp [sLeftAssoc, Expression.wf, logicalSyn, comparisonSyn, termSyn, factorSyn, unarySyn, spineSyn, wfOps,
    OpList.wf, OpList.one, Comparison.toLogical, Term.toComparison, Factor.toTerm, Unary.toFactor, Prim.toTerm,
    Prim.toUnary, VarSpec.f, VarSpec.u, VarSpec.t, Unary.wf, Primary.wf, Prim.wf, subsWf, argsWf, chainOK,
    comparisonOps, wfLinks, Unary.startsUn, Unary.edgeCall, Primary.edgeCall, Prim.edgeCall, subsEdgeCall,
    Prim.opensAt, OpList.edgeCall, lastEdge, ha, hb, hx]

theorem sList_wf (a b x : VarSpec) (ha : a.wf = true) (hb : b.wf = true) (hx : x.wf = true) :
    (sList a b x : Expression N).wf = true := by
  simp [sList, Expression.wf, logicalSyn, comparisonSyn, termSyn, factorSyn, unarySyn, spineSyn, wfOps,
    OpList.wf, OpList.one, Comparison.toLogical, Term.toComparison, Factor.toTerm, Unary.toFactor, Prim.toTerm,
    Prim.toUnary, VarSpec.f, VarSpec.u, VarSpec.t, Unary.wf, Primary.wf, Prim.wf, subsWf, argsWf, chainOK,
    comparisonOps, wfLinks, Unary.startsUn, Unary.edgeCall, Primary.edgeCall, Prim.edgeCall, subsEdgeCall,
    Prim.opensAt, OpList.edgeCall, lastEdge, ha, hb, hx]

theorem sListNearest_wf (a b x y : VarSpec) (ha : a.wf = true) (hb : b.wf = true) (hx : x.wf = true)
    (hy : y.wf = true) : (sListNearest a b x y : Expression N).wf = true := by
  simp [sListNearest, Expression.wf, logicalSyn, comparisonSyn, termSyn, factorSyn, unarySyn, spineSyn, wfOps,
    OpList.wf, OpList.one, Comparison.toLogical, Term.toComparison, Factor.toTerm, Unary.toFactor, Prim.toTerm,
    Prim.toUnary, VarSpec.f, VarSpec.u, VarSpec.t, Unary.wf, Primary.wf, Prim.wf, subsWf, argsWf, chainOK,
    comparisonOps, wfLinks, Unary.startsUn, Unary.edgeCall, Primary.edgeCall, Prim.edgeCall, subsEdgeCall,
    Prim.opensAt, OpList.edgeCall, lastEdge, ha, hb, hx, hy]

theorem sArgs_wf (f x y : VarSpec) (hf : f.wf = true) (hx : x.wf = true) (hy : y.wf = true) :
    (sArgs f x y : Expression N).wf = true := by
  simp [sArgs, Expression.wf, logicalSyn, comparisonSyn, termSyn, factorSyn, unarySyn, spineSyn, wfOps,
    OpList.wf, OpList.one, Comparison.toLogical, Term.toComparison, Factor.toTerm, Unary.toFactor, Prim.toTerm,
    Prim.toUnary, VarSpec.f, VarSpec.u, VarSpec.t, Unary.wf, Primary.wf, Prim.wf, subsWf, argsWf, chainOK,
    comparisonOps, wfLinks, Unary.startsUn, Unary.edgeCall, Primary.edgeCall, Prim.edgeCall, subsEdgeCall,
    Prim.opensAt, OpList.edgeCall, lastEdge, hf, hx, hy]

theorem sNotIs_wf (x y : VarSpec) (hx : x.wf = true) (hy : y.wf = true) :
    (sNotIs x y : Expression N).wf = true := by
  simp [sNotIs, Expression.wf, logicalSyn, comparisonSyn, termSyn, factorSyn, unarySyn, spineSyn, wfOps,
    OpList.wf, OpList.one, Comparison.toLogical, Term.toComparison, Factor.toTerm, Unary.toFactor, Prim.toTerm,
    Prim.toUnary, VarSpec.f, VarSpec.u, VarSpec.t, Unary.wf, Primary.wf, Prim.wf, subsWf, argsWf, chainOK,
    comparisonOps, wfLinks, Unary.startsUn, Unary.edgeCall, Primary.edgeCall, Prim.edgeCall, subsEdgeCall,
    Prim.opensAt, OpList.edgeCall, lastEdge, hx, hy]

end

/-! ### for the examples: ASCII characters, integer numbers -/

namespace Ex
open Lexer

/-- a `Word` token -/
def w (s : Str) : Tok Int := plainTok .word s 0 default
/-- a keyword token (spelling irrelevant) -/
def k (kd : TK) : Tok Int := plainTok kd [] 0 default
/-- a number token -/
def num (n : Int) : Tok Int := { (plainTok .number [] 0 default : Tok Int) with num := some n }
/-- initial state over hand-built tokens -/
def st0 (toks : List (Tok Int)) : PState Int := ⟨[], toks, ⟨1, 0, 0⟩, ⟨1, 0, 0⟩, false⟩
/-- the tree of a simple variable, no range -/
def v (s : Str) : Expr Int := .prim (.ident (.var (.simple s)) default)
/-- the tree of a number, no range -/
def lit (n : Int) : Expr Int := .prim (.lit (.num n) default)

local instance : CharOps := asciiOps

/-- run `parse_expression` of the model: the tree without ranges and the kinds left over -/
def runE (n : Nat) (toks : List (Tok Int)) : Option (Expr Int × List TK) :=
  match parseExpression (parser n) (st0 toks) with
  | .ok (t, st') => some (t.eraseRanges, st'.toks.map (·.kind))
  | _ => none

/-- run `parse_statement` of the model -/
def runS (n : Nat) (toks : List (Tok Int)) : Option (Option (Stmt Int) × List TK) :=
  match parseStatement (parser n) (st0 toks) with
  | .ok (s, st') => some (s.map eraseS, st'.toks.map (·.kind))
  | _ => none

/-- run `Parser::parse` of the model -/
def runP (n : Nat) (toks : List (Tok Int)) : Option (List (Block Int)) :=
  match parseProgramBody (parser n) (st0 toks) with
  | .ok (p, _) => some (p.code.map eraseB)
  | _ => none

/-- choices: always the first alternative, every token at position 0 -/
def c0 : Choices Int := ⟨fun _ => 0, fun _ => k .error⟩
/-- choices: always the second alternative (`with`, `, and`, `'s`, …) -/
def c1 : Choices Int := ⟨fun _ => 1, fun _ => k .error⟩

def va (s : Str) : VarSpec := .simple s

theorem c0_sane : c0.Sane [] := fun _ => show SnapOK [] (k .error).after from ⟨by decide, by decide⟩
theorem c1_sane : c1.Sane [] := fun _ => show SnapOK [] (k .error).after from ⟨by decide, by decide⟩
theorem c0_noIt : c0.NoIt := fun _ =>
  show (CharOps.lower (k .error).spelling == str% "it") = false from by decide
theorem c1_noIt : c1.NoIt := fun _ =>
  show (CharOps.lower (k .error).spelling == str% "it") = false from by decide

/-- `say <n>` with a line end -/
def sayS (n : Int) (eol : Eol) : Statement Int :=
  .simple (.say (Comparison.toLogical (Term.toComparison (Prim.toTerm (.lit (.num n)))))) eol
/-- the expression `x` -/
def xE : Expression Int := Comparison.toLogical (Term.toComparison (va (str% "x")).t)
/-- `f takes p, q / if x / give x / else / say 4` -/
def funEx : Statement Int :=
  .func (va (str% "f")) (va (str% "p")) [va (str% "q")] .none
    [.ifS xE .none [.simple (.ret (str% "give") xE) .none] (some [sayS 4 .none])]
/-- two top-level blocks: `if x / say 1. / else / say 2 / <blank> / say 3,` and the function above -/
def progEx : List (List (Statement Int)) :=
  [[.ifS xE .none [sayS 1 .dot] (some [sayS 2 .none]), sayS 3 .comma], [funEx]]
/-- `a with b times x, and y` … -/
def eEx : Expression Int := sListNearest (va (str% "a")) (va (str% "b")) (va (str% "x")) (va (str% "y"))

end Ex

end Grammar
end Rrss
