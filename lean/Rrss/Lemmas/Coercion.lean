/-
  Rrss.Lemmas.Coercion — the value operations of the model against the flat tables of
  `Spec.Coercion`, cell by cell.
-/
import Rrss.Spec.Coercion
import Rrss.Lemmas.ApplyOp
set_option linter.unusedSectionVars false
namespace Rrss
namespace Val
open NumOps
variable {N : Type} [NumOps N]

@[simp] theorem spec_text_bool (b : Bool) : Spec.text (.bool b : Val N) = boolText b := by
  cases b <;> rfl

theorem isTruthy_eq_spec (v : Val N) : v.isTruthy = Spec.truthy v := by
  cases v <;> rfl

theorem outputText_eq_spec (v : Val N) : v.outputText = Spec.text v := by
  cases v
  case bool b => exact (spec_text_bool b).symm
  all_goals rfl

theorem capped_concat (cap : Nat) (x y : Str) :
    (if x.length + y.length > cap then Outcome.resource else .ok (str (x ++ y)) : VRes N (Val N))
      = Spec.capped cap (str (x ++ y)) := by
  simp [Spec.capped, List.length_append]

theorem plus_eq_spec (cap : Nat) (a b : Val N) :
    plus cap a b = Spec.capped cap (Spec.plus a b) := by
  cases a <;> cases b <;> simp only [Spec.plus, spec_text_bool] <;>
    first | rfl | exact capped_concat cap _ _

theorem subtract_eq_spec (a b : Val N) : subtract a b = Spec.minus a b := by
  cases a <;> cases b <;> rfl

theorem divide_eq_spec (a b : Val N) : divide a b = Spec.over a b := by
  cases a <;> cases b <;> rfl

theorem repeatStr_eq (s : Str) (n : Nat) : repeatStr s n = (List.replicate n s).flatten := by
  induction n with
  | zero => rfl
  | succ n ih => simp [repeatStr, ih, List.replicate_succ]

theorem repeatStr_length (s : Str) (n : Nat) : (repeatStr s n).length = s.length * n := by
  induction n with
  | zero => rfl
  | succ n ih => simp [repeatStr, ih, Nat.mul_succ, Nat.add_comm]

theorem repeat_capped (cap : Nat) (s : Str) (y : N) :
    (if geZero y then
        (let n := if s.isEmpty then 0 else toUSize y
         if s.length * n > cap then Outcome.resource else .ok (str (repeatStr s n)))
      else .ok undef : VRes N (Val N))
      = Spec.capped cap (Spec.repeated s y) := by
  unfold Spec.repeated
  cases h : geZero y
  · rfl
  · simp only [if_true, Spec.capped, ← repeatStr_eq, repeatStr_length]

theorem multiply_eq_spec (cap : Nat) (a b : Val N) :
    multiply cap a b = Spec.capped cap (Spec.times a b) := by
  cases a <;> cases b <;> first | rfl | exact repeat_capped cap _ _

/-- the error payload and the replacement of null by zero in `inc` -/
theorem inc_eq_spec (v : Val N) (k : Int) :
    inc v k = match Spec.inc v k with
      | some r => .ok r
      | none => .err (.invalidOp (if k ≥ 0 then str% "increment" else str% "decrement") v) := by
  cases v
  case bool b =>
    simp only [inc, Spec.inc]
    by_cases h : k % 2 = 0
    · simp [h]
    · rw [if_neg h, bne_iff_ne.mpr h]; cases b <;> rfl
  all_goals rfl

theorem negate_eq_spec (v : Val N) :
    negate v = match Spec.negate v with
      | some r => .ok r
      | none => .err (.invalidOp str% "negate" v) := by
  cases v <;> rfl

theorem equals_eq_spec (a b : Val N) : equals a b = Spec.equals a b := by
  cases a <;> cases b
  case num.str n s =>
    simp only [equals, cmpCoerced, kind, Spec.equals]
    cases (parse s : Option N) <;> rfl
  case str.num s n =>
    simp only [equals, cmpCoerced, kind, Spec.equals]
    cases (parse s : Option N) <;> rfl
  all_goals first | rfl | simp [equals, cmpCoerced, kind, eqv, Spec.equals]

theorem compare_eq_spec (a b : Val N) :
    compare a b = match Spec.compare a b with
      | .is o => .ok o
      | .invalid => .err (.invalidComparison a b) := by
  cases a <;> cases b
  case num.str n s =>
    simp only [compare, cmpCoerced, kind, Spec.compare]
    cases (parse s : Option N) <;> rfl
  case str.num s n =>
    simp only [compare, cmpCoerced, kind, Spec.compare]
    cases (parse s : Option N) <;> rfl
  all_goals rfl

end Val
end Rrss
