/-
  Rrss.Lemmas.ParserInv — vocabulary of the "parser never crashes / every error renders" proof:
  * `TokOk`/`ToksOk`/`SnapOk`/`StOk`: what the parser needs of the token list the lexer hands it;
  * `ErrRenderable`: the parse errors on which `Display for ParseError` does not panic;
  * `wp`: weakest precondition of a parser action for "no crash, no `resource`, errors render,
    `ok` results satisfy the postcondition" (running out of fuel is allowed: that the fuel
    suffices is `parse_fuel_sufficient`);
  * slicing lemmas for `get_literal_text_*`; `wp` rules for the primitives of the parser.
-/
import Rrss.Parser
import Rrss.ParseErrorDisplay
import Rrss.Lemmas.LexerBytes
import Rrss.Lemmas.ParserFuelBase
namespace Rrss
namespace Parser
open Lexer (substr dropBytes takeBytes ulen_append ulen_nil ulen_cons)

variable {N : Type} {α β : Type}

/-! ### the invariant on tokens and parser states -/

/-- a lexer snapshot `current_loc` can read: `line_start ≤ idx ≤ len` -/
def SnapOk (src : Str) (s : Snap) : Prop := s.lineStart ≤ s.idx ∧ s.idx ≤ ulen src

/-- what the parser needs of ONE token: its spelling is the slice of the source at its byte
    offset (sites `parsePoeticText`), the spelling is not empty (site `parseCapFirstChar`), and the
    lexer snapshot taken after it is in range (sites `lexCurrentLoc`, `lexStagedIndex`) -/
structure TokOk (src : Str) (t : Tok N) : Prop where
  slice : substr src t.start (t.start + ulen t.spelling) = some t.spelling
  ne : t.spelling ≠ []
  snap : SnapOk src t.after

/-- `t` ends at or before the start of `u` -/
def Before (t u : Tok N) : Prop := t.start + ulen t.spelling ≤ u.start

/-- what the parser needs of the token LIST: every token is `TokOk` and the tokens are in source
    order without overlap. (A `Number` token without payload would not crash the parser:
    `literalOf` answers `none` and the token is simply not a literal.) -/
def ToksOk (src : Str) (toks : List (Tok N)) : Prop :=
  (∀ t ∈ toks, TokOk src t) ∧ toks.Pairwise Before

/-- the invariant on parser states: the remaining tokens are `ToksOk` for the state's source, and
    the two snapshots (`last`: state of the lexer after the last token pulled; `eof`: state of the
    exhausted lexer) are in range -/
structure StOk (st : PState N) : Prop where
  toks : ToksOk st.src st.toks
  last : SnapOk st.src st.last
  eof : SnapOk st.src st.eof

theorem ToksOk.tail {src : Str} {t : Tok N} {ts : List (Tok N)} (h : ToksOk src (t :: ts)) :
    ToksOk src ts :=
  ⟨fun u hu => h.1 u (List.mem_cons_of_mem _ hu), (List.pairwise_cons.mp h.2).2⟩

theorem ToksOk.head {src : Str} {t : Tok N} {ts : List (Tok N)} (h : ToksOk src (t :: ts)) :
    TokOk src t := h.1 t (List.mem_cons_self ..)

theorem ToksOk.head_before {src : Str} {t : Tok N} {ts : List (Tok N)} (h : ToksOk src (t :: ts)) :
    ∀ u ∈ ts, Before t u := (List.pairwise_cons.mp h.2).1

theorem ToksOk.nil {src : Str} : ToksOk (N := N) src [] := ⟨by simp, List.Pairwise.nil⟩

/-- the state after pulling the head token -/
theorem StOk.step {st : PState N} {t : Tok N} {ts : List (Tok N)} (h : StOk st)
    (ht : st.toks = t :: ts) : StOk { st with toks := ts, last := t.after } := by
  have h1 := h.toks; rw [ht] at h1
  exact ⟨h1.tail, h1.head.snap, h.eof⟩

/-- the state after the lexer ran dry -/
theorem StOk.atEof {st : PState N} (h : StOk st) : StOk { st with last := st.eof } :=
  ⟨h.toks, h.eof, h.eof⟩

/-! ### renderable errors -/

/-- is the primary expression an identifier? -/
def Primary.isIdent : Primary N → Bool
  | .ident _ _ => true
  | _ => false

/-- The parse errors `Display for ParseError` can print: an `UnexpectedToken` error carries a
    token, the list of an `ExpectedOneOfTokens` error is not empty, the operand of a
    `MutationOperandMustBeIdentifier` error is not an identifier. -/
def ErrRenderable (e : ParseErr N) : Prop :=
  (e.code = .unexpectedToken → ∃ t, e.loc = .token t) ∧
  (∀ ks, e.code = .expectedOneOfTokens ks → ks ≠ []) ∧
  (∀ p, e.code = .mutationOperandMustBeIdentifier p → Primary.isIdent p = false)

/-- the codes that render at every location -/
def codeSafe : PCode N → Bool
  | .unexpectedToken => false
  | .expectedOneOfTokens ks => !ks.isEmpty
  | .mutationOperandMustBeIdentifier p => !Primary.isIdent p
  | _ => true

theorem errRenderable_of_codeSafe {c : PCode N} {l : ErrLoc N} (h : codeSafe c = true) :
    ErrRenderable ⟨c, l⟩ := by
  refine ⟨?_, ?_, ?_⟩
  · intro hc; simp only at hc; subst hc; simp [codeSafe] at h
  · intro ks hc; simp only at hc; subst hc; simpa [codeSafe] using h
  · intro p hc; simp only at hc; subst hc; simpa [codeSafe] using h

theorem errRenderable_unexpected {t : Tok N} : ErrRenderable ⟨.unexpectedToken, .token t⟩ :=
  ⟨fun _ => ⟨t, rfl⟩, fun ks h => by simp at h, fun p h => by simp at h⟩

theorem writeList_ok {l : List Str} (h : l ≠ []) : ∃ s, writeList l = .ok s := by
  match l, h with
  | [a], _ => exact ⟨_, rfl⟩
  | [a, b], _ => exact ⟨_, rfl⟩
  | a :: b :: c :: r, _ => exact ⟨_, rfl⟩

/-- a renderable error renders -/
theorem renderParseError_ok {e : ParseErr N} (h : ErrRenderable e) :
    ∃ s, renderParseError e = .ok s := by
  obtain ⟨code, loc⟩ := e
  obtain ⟨h1, h2, h3⟩ := h
  simp only at h1 h2 h3
  unfold renderParseError
  cases code with
  | unexpectedToken =>
    obtain ⟨t, rfl⟩ := h1 rfl
    exact ⟨_, rfl⟩
  | expectedOneOfTokens ks =>
    have hne : ks.map TK.display ≠ [] := by simpa using h2 ks rfl
    obtain ⟨s, hs⟩ := writeList_ok hne
    simp only [renderCode, hs]
    exact ⟨_, rfl⟩
  | mutationOperandMustBeIdentifier p =>
    have := h3 p rfl
    cases p with
    | ident i r => simp [Primary.isIdent] at this
    | lit l r => exact ⟨_, rfl⟩
    | sub a i => exact ⟨_, rfl⟩
    | call n r a => exact ⟨_, rfl⟩
    | pop a => exact ⟨_, rfl⟩
  | _ => exact ⟨_, rfl⟩

/-! ### weakest preconditions -/

/-- `p`, started in `st`, does not crash, does not answer `resource`, an error renders, and an
    `ok` result satisfies `post` (it may run out of fuel) -/
def wp (p : P N α) (post : α → PState N → Prop) (st : PState N) : Prop :=
  match p st with
  | .ok (a, st') => post a st'
  | .err e => ErrRenderable e
  | .crash _ => False
  | .resource => False
  | .fuel => True

theorem wp_bind (x : P N α) (f : α → P N β) (post : β → PState N → Prop) (st : PState N) :
    wp (P.bind x f) post st ↔ wp x (fun a st' => wp (f a) post st') st := by
  simp only [wp, P.bind]
  cases x st with
  | ok r => obtain ⟨a, st'⟩ := r; simp
  | _ => simp

theorem wp_mono {p : P N α} {post post' : α → PState N → Prop} {st : PState N}
    (h : wp p post st) (hm : ∀ a st', post a st' → post' a st') : wp p post' st := by
  simp only [wp] at h ⊢
  cases hp : p st with
  | ok r => obtain ⟨a, st'⟩ := r; rw [hp] at h; exact hm _ _ h
  | err e => rw [hp] at h; exact h
  | crash s => rw [hp] at h; exact h
  | resource => rw [hp] at h; exact h
  | fuel => trivial

/-- sequencing -/
theorem wp_seq {x : P N α} {f : α → P N β} {mid : α → PState N → Prop}
    {post : β → PState N → Prop} {st : PState N}
    (hx : wp x mid st) (hf : ∀ a st', mid a st' → wp (f a) post st') :
    wp (P.bind x f) post st :=
  (wp_bind x f post st).mpr (wp_mono hx hf)

@[simp] theorem wp_pure (a : α) (post : α → PState N → Prop) (st : PState N) :
    wp (P.pure a) post st ↔ post a st := by simp [wp, P.pure]

@[simp] theorem wp_pure' (a : α) (post : α → PState N → Prop) (st : PState N) :
    wp (pure a : P N α) post st ↔ post a st := wp_pure a post st

@[simp] theorem wp_fuel (post : α → PState N → Prop) (st : PState N) :
    wp (P.fuel : P N α) post st := by simp [wp, P.fuel]

@[simp] theorem wp_crash (s : Site) (post : α → PState N → Prop) (st : PState N) :
    wp (P.crash s : P N α) post st ↔ False := by simp [wp, P.crash]

@[simp] theorem wp_fail (e : ParseErr N) (post : α → PState N → Prop) (st : PState N) :
    wp (P.fail e : P N α) post st ↔ ErrRenderable e := by simp [wp, P.fail]

@[simp] theorem wp_failWith (c : PCode N) (post : α → PState N → Prop) (st : PState N) :
    wp (failWith c : P N α) post st ↔ ErrRenderable ⟨c, errLocOf st⟩ := by simp [wp, failWith]

@[simp] theorem ofOption_some (s : Site) (a : α) : (P.ofOption s (some a) : P N α) = P.pure a := rfl

@[simp] theorem wp_current (post : Option (Tok N) → PState N → Prop) (st : PState N) :
    wp current post st ↔ post st.toks.head? st := by simp [wp, current]

@[simp] theorem wp_currentLine (post : Nat → PState N → Prop) (st : PState N) :
    wp currentLine post st ↔ post st.last.line st := by simp [wp, currentLine]

@[simp] theorem wp_getParsingList (post : Bool → PState N → Prop) (st : PState N) :
    wp getParsingList post st ↔ post st.parsingList st := by simp [wp, getParsingList]

@[simp] theorem wp_setParsingList (b : Bool) (post : Unit → PState N → Prop) (st : PState N) :
    wp (setParsingList b) post st ↔ post () { st with parsingList := b } := by
  simp [wp, setParsingList]

/-- does the current token exist and satisfy `m`? -/
def headIs (m : Tok N → Bool) (st : PState N) : Bool :=
  match st.toks with
  | t :: _ => m t
  | [] => false

theorem headIs_iff {m : Tok N → Bool} {st : PState N} :
    headIs m st = true ↔ ∃ t ts, st.toks = t :: ts ∧ m t = true := by
  unfold headIs
  cases st.toks <;> simp

@[simp] theorem wp_currentMatches (m : Tok N → Bool) (post : Bool → PState N → Prop)
    (st : PState N) : wp (currentMatches m) post st ↔ post (headIs m st) st := by
  unfold wp currentMatches headIs
  cases st.toks <;> simp

theorem errLocOf_cons {st : PState N} {t : Tok N} {ts : List (Tok N)} (h : st.toks = t :: ts) :
    errLocOf st = .token t := by simp [errLocOf, h]

/-- `UnexpectedToken` built by `new_parse_error` while a current token exists -/
theorem errRenderable_unexpected_at {st : PState N} {t : Tok N} {ts : List (Tok N)}
    (h : st.toks = t :: ts) : ErrRenderable ⟨.unexpectedToken, errLocOf st⟩ := by
  rw [errLocOf_cons h]; exact errRenderable_unexpected

theorem StOk.setParsingList {st : PState N} (h : StOk st) (b : Bool) :
    StOk { st with parsingList := b } := ⟨h.toks, h.last, h.eof⟩

/-! ### specifications: on good states, `wp` with a good final state -/

/-- `p` keeps the invariant and establishes `post` -/
abbrev Spec (p : P N α) (post : α → PState N → Prop) : Prop :=
  ∀ st, StOk st → wp p (fun a st' => StOk st' ∧ post a st') st

/-- `p` never crashes on good states, its errors render, its results are good states -/
abbrev Safe (p : P N α) : Prop := Spec p (fun _ _ => True)

theorem Spec.weaken {p : P N α} {post post' : α → PState N → Prop} (h : Spec p post)
    (hm : ∀ a st, post a st → post' a st) : Spec p post' :=
  fun st hst => wp_mono (h st hst) (fun a st' ⟨h1, h2⟩ => ⟨h1, hm a st' h2⟩)

theorem Spec.safe {p : P N α} {post : α → PState N → Prop} (h : Spec p post) : Safe p :=
  h.weaken (fun _ _ _ => trivial)

theorem fuel_safe : Safe (P.fuel : P N α) := fun _ _ => wp_fuel _ _

theorem currentLoc_safe : Safe (currentLoc : P N Loc) := by
  intro st hst
  have h := hst.last
  simp [wp, currentLoc, h.1, h.2, hst]

theorem advance_safe : Safe (advance : P N _) := by
  intro st hst
  unfold wp advance
  cases ht : st.toks with
  | nil => exact ⟨by simpa [ht] using hst.atEof, trivial⟩
  | cons t ts => exact ⟨hst.step ht, trivial⟩

/-- `match_and_consume`: the token returned satisfies the matcher, is a good token, and lies
    before all remaining tokens -/
theorem matchAndConsume_spec (m : Tok N → Bool) :
    Spec (matchAndConsume m) (fun a st' => ∀ t, a = some t →
      m t = true ∧ TokOk st'.src t ∧ ∀ u ∈ st'.toks, Before t u) := by
  intro st hst
  unfold wp matchAndConsume
  cases ht : st.toks with
  | nil => exact ⟨hst, by simp⟩
  | cons t ts =>
    have h1 := hst.toks; rw [ht] at h1
    by_cases hm : m t = true
    · simp only [hm, ite_true]
      refine ⟨hst.step ht, fun t' h' => ?_⟩
      simp only [Option.some.injEq] at h'; subst h'
      exact ⟨hm, h1.head, h1.head_before⟩
    · simp only [hm]
      exact ⟨hst, by simp⟩

theorem consume_spec (m : Tok N → Bool) {st : PState N} (hst : StOk st) (hm : headIs m st = true) :
    wp (consume m) (fun t st' => StOk st' ∧ m t = true) st := by
  obtain ⟨t, ts, ht, hmt⟩ := headIs_iff.mp hm
  unfold wp consume
  simp only [ht, hmt, ite_true]
  exact ⟨hst.step ht, trivial⟩

theorem isCapitalizedWord_ok {src : Str} {t : Tok N} [CharOps] (h : TokOk src t) :
    ∃ b, isCapitalizedWord t = .ok b := by
  unfold isCapitalizedWord
  split
  · cases hs : t.spelling with
    | nil => exact absurd hs h.ne
    | cons c cs => exact ⟨_, rfl⟩
  · exact ⟨_, rfl⟩

theorem matchAndConsumeP_isCapitalizedWord_safe [CharOps] :
    Safe (matchAndConsumeP isCapitalizedWord : P N _) := by
  intro st hst
  unfold wp matchAndConsumeP
  cases ht : st.toks with
  | nil => exact ⟨hst, trivial⟩
  | cons t ts =>
    have h1 := hst.toks; rw [ht] at h1
    obtain ⟨b, hb⟩ := isCapitalizedWord_ok h1.head
    simp only [hb]
    cases b
    · exact ⟨hst, trivial⟩
    · exact ⟨hst.step ht, trivial⟩

theorem dropUntil_ok (k : TK) {src : Str} {eof : Snap} (he : SnapOk src eof) :
    ∀ (ts : List (Tok N)) (last : Snap), ToksOk src ts → SnapOk src last →
      ToksOk src (dropUntil k eof ts last).1 ∧ SnapOk src (dropUntil k eof ts last).2 ∧
      ∀ u ∈ (dropUntil k eof ts last).1, u ∈ ts
  | [], _, h, _ => ⟨h, he, fun _ hu => hu⟩
  | t :: ts, last, h, hl => by
    simp only [dropUntil]
    split
    · exact ⟨h, hl, fun _ hu => hu⟩
    · obtain ⟨h1, h2, h3⟩ := dropUntil_ok k he ts t.after h.tail h.head.snap
      exact ⟨h1, h2, fun u hu => List.mem_cons_of_mem _ (h3 u hu)⟩

/-- `match_until_next`: the token found, if any, is the current token; the remaining tokens are
    among the previous ones -/
theorem matchUntilNext_wp (k : TK) {st : PState N} (hst : StOk st) :
    wp (matchUntilNext k) (fun a st' => StOk st' ∧ st'.src = st.src ∧ a = st'.toks.head? ∧
      ∀ u ∈ st'.toks, u ∈ st.toks) st := by
  obtain ⟨h1, h2, h3⟩ := dropUntil_ok k hst.eof st.toks st.last hst.toks hst.last
  unfold wp matchUntilNext
  exact ⟨⟨h1, h2, hst.eof⟩, rfl, rfl, h3⟩

/-! ### slicing: the text between two tokens -/

theorem dropBytes_some : ∀ {n : Nat} {s r : Str}, dropBytes n s = some r →
    ∃ p, s = p ++ r ∧ ulen p = n
  | 0, s, r, h => by simp [dropBytes] at h; exact ⟨[], by simp [h], rfl⟩
  | n + 1, [], r, h => by simp [dropBytes] at h
  | n + 1, c :: cs, r, h => by
    simp only [dropBytes] at h
    split at h
    · next hc =>
      obtain ⟨p, hp, hl⟩ := dropBytes_some h
      exact ⟨c :: p, by simp [hp], by simp [hl]; omega⟩
    · cases h

theorem takeBytes_some : ∀ {n : Nat} {s r : Str}, takeBytes n s = some r →
    ∃ q, s = r ++ q ∧ ulen r = n
  | 0, s, r, h => by simp [takeBytes] at h; subst h; exact ⟨s, by simp, by simp⟩
  | n + 1, [], r, h => by simp [takeBytes] at h
  | n + 1, c :: cs, r, h => by
    simp only [takeBytes] at h
    split at h
    · next hc =>
      cases ht : takeBytes (n + 1 - c.utf8Size) cs with
      | none => simp [ht] at h
      | some r' =>
        simp [ht] at h
        obtain ⟨q, hq, hl⟩ := takeBytes_some ht
        exact ⟨q, by simp [← h, hq], by simp [← h, hl]; omega⟩
    · cases h

/-- a defined slice decomposes the text -/
theorem substr_some {src m : Str} {lo hi : Nat} (h : substr src lo hi = some m) :
    ∃ pre post, src = pre ++ m ++ post ∧ ulen pre = lo ∧ hi = lo + ulen m := by
  unfold substr at h
  split at h
  · next hle =>
    cases hd : dropBytes lo src with
    | none => simp [hd] at h
    | some r =>
      simp [hd] at h
      obtain ⟨p, hp, hl⟩ := dropBytes_some hd
      obtain ⟨q, hq, hl2⟩ := takeBytes_some h
      exact ⟨p, q, by simp [hp, hq], hl, by omega⟩
  · cases h

theorem ulen_eq_zero {s : Str} (h : ulen s = 0) : s = [] := by
  cases s with
  | nil => rfl
  | cons c cs => have := Lexer.usize_pos c; simp at h; omega

/-- two decompositions of the same text: the shorter prefix is a prefix of the longer -/
theorem prefix_of_append_eq : ∀ {a b c d : Str}, a ++ b = c ++ d → ulen a ≤ ulen c →
    ∃ m, c = a ++ m
  | [], _, c, _, _, _ => ⟨c, rfl⟩
  | x :: a, b, [], d, _, hl => by
    have := Lexer.usize_pos x; simp at hl; omega
  | x :: a, b, y :: c, d, h, hl => by
    simp only [List.cons_append, List.cons.injEq] at h
    obtain ⟨rfl, h⟩ := h
    obtain ⟨m, hm⟩ := prefix_of_append_eq h (by simp at hl; omega)
    exact ⟨m, by simp [hm]⟩

/-- `get_literal_text_between(says, stop)` is defined and starts with the spelling of `says` -/
theorem literalText_between {src s1 s2 : Str} {a b : Nat}
    (h1 : substr src a (a + ulen s1) = some s1) (h2 : substr src b (b + ulen s2) = some s2)
    (hab : a + ulen s1 ≤ b) : ∃ m, substr src a b = some (s1 ++ m) := by
  obtain ⟨p1, q1, e1, l1, -⟩ := substr_some h1
  obtain ⟨p2, q2, e2, l2, -⟩ := substr_some h2
  have he : (p1 ++ s1) ++ q1 = p2 ++ (s2 ++ q2) := by
    rw [← e1, e2]; simp
  obtain ⟨m, hm⟩ := prefix_of_append_eq he (by simp; omega)
  refine ⟨m, Lexer.substr_mid' (pre := p1) (mid := s1 ++ m) (post := s2 ++ q2) ?_ l1.symm ?_⟩
  · rw [e2, hm]; simp
  · have : ulen p2 = ulen p1 + ulen s1 + ulen m := by rw [hm]; simp [Nat.add_assoc]
    simp; omega

/-- `get_literal_text_after(says)` is defined and starts with the spelling of `says` -/
theorem literalText_after {src s1 : Str} {a : Nat}
    (h1 : substr src a (a + ulen s1) = some s1) : ∃ m, substr src a (ulen src) = some (s1 ++ m) := by
  obtain ⟨p1, q1, e1, l1, -⟩ := substr_some h1
  refine ⟨q1, Lexer.substr_mid' (pre := p1) (mid := s1 ++ q1) (post := []) ?_ l1.symm ?_⟩
  · rw [e1]; simp
  · rw [e1]; simp <;> omega

theorem stripPrefix?_append : ∀ (d r : Str), stripPrefix? d (d ++ r) = some r
  | [], r => by simp [stripPrefix?]
  | x :: d, r => by simp [stripPrefix?, stripPrefix?_append d r]

end Parser
end Rrss
