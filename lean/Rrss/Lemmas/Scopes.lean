/-
  Rrss.Lemmas.Scopes — the scope stack as data: `slookup`/`sset` on one scope, `lookupVarIn` /
  `lookupFuncIn` / `setVarIn` / `functionScope` on the stack against the specification
  `Spec.firstBinding`, and the relation `Step` ("what a terminating piece of interpretation can
  do to the scope stack") with the properties derived from it.
-/
import Rrss.Env
import Rrss.Spec.Scopes
set_option linter.unusedSectionVars false
set_option linter.unusedVariables false
namespace Rrss
namespace C05
variable [CharOps] {N : Type} [NumOps N]
open Env Spec

/-! ### one scope -/

theorem slookup_eq_binding (k : VarName) (s : Scope N) : slookup k s = binding k s := by
  induction s with
  | nil => rfl
  | cons p s ih =>
    obtain ⟨k', e⟩ := p
    unfold slookup binding
    by_cases h : k = k'
    · subst h; simp
    · have h' : (k' == k) = false := by simpa using fun h' => h h'.symm
      simp only [h, ↓reduceIte, List.find?_cons, h']
      exact ih

theorem slookup_none_iff (k : VarName) (s : Scope N) : slookup k s = none ↔ k ∉ keys s := by
  induction s with
  | nil => simp [slookup, keys]
  | cons p s ih =>
    obtain ⟨k', e⟩ := p
    unfold slookup
    by_cases h : k = k'
    · subst h; simp [keys]
    · simp only [h, ↓reduceIte, ih]; simp [keys, h]

theorem slookup_isSome_iff (k : VarName) (s : Scope N) : (slookup k s).isSome ↔ k ∈ keys s := by
  rw [← Decidable.not_iff_not, ← slookup_none_iff]; cases slookup k s <;> simp

theorem mem_keys_of_slookup {k : VarName} {s : Scope N} {e : Entry N} (h : slookup k s = some e) :
    k ∈ keys s := (slookup_isSome_iff k s).mp (by simp [h])

/-- inserting under a fresh key appends at the end -/
theorem sset_of_none {k : VarName} {s : Scope N} (e : Entry N) (h : slookup k s = none) :
    sset k e s = s ++ [(k, e)] := by
  induction s with
  | nil => rfl
  | cons p s ih =>
    obtain ⟨k', e'⟩ := p
    unfold slookup at h
    by_cases hk : k = k'
    · simp [hk] at h
    · simp only [hk, ↓reduceIte] at h
      simp [sset, hk, ih h]

/-- `slookup` after `sset` -/
theorem slookup_sset (k' k : VarName) (e : Entry N) (s : Scope N) :
    slookup k' (sset k e s) = if k' = k then some e else slookup k' s := by
  induction s with
  | nil => simp [sset, slookup]
  | cons p s ih =>
    obtain ⟨k0, e0⟩ := p
    unfold sset
    by_cases hk : k = k0
    · subst hk
      by_cases hk' : k' = k <;> simp [slookup, hk']
    · by_cases hk' : k' = k0
      · subst hk'
        have : ¬ k' = k := fun h => hk h.symm
        simp [slookup, hk, this]
      · simp only [hk, ↓reduceIte, slookup, hk', ih]

theorem slookup_sset_self (k : VarName) (e : Entry N) (s : Scope N) :
    slookup k (sset k e s) = some e := by simp [slookup_sset]

theorem slookup_sset_ne {k' k : VarName} (h : k' ≠ k) (e : Entry N) (s : Scope N) :
    slookup k' (sset k e s) = slookup k' s := by simp [slookup_sset, h]

/-- overwriting an existing key keeps the key list -/
theorem keys_sset_of_mem {k : VarName} {s : Scope N} (e : Entry N) (h : k ∈ keys s) :
    keys (sset k e s) = keys s := by
  induction s with
  | nil => simp [keys] at h
  | cons p s ih =>
    obtain ⟨k0, e0⟩ := p
    unfold sset
    by_cases hk : k = k0
    · simp [hk, keys]
    · have : k ∈ keys s := by simpa [keys, hk] using h
      have ih := ih this
      simp only [keys] at ih
      simp [hk, keys, ih]

theorem keys_sset_of_none {k : VarName} {s : Scope N} (e : Entry N) (h : slookup k s = none) :
    keys (sset k e s) = keys s ++ [k] := by
  rw [sset_of_none e h]; simp [keys]

/-- overwriting a variable by a variable keeps the signature -/
theorem sig_sset_var {k : VarName} {s : Scope N} {v0 : Val N} (v : Val N)
    (h : slookup k s = some (.var v0)) : sig (sset k (.var v) s) = sig s := by
  induction s with
  | nil => simp [slookup] at h
  | cons p s ih =>
    obtain ⟨k0, e0⟩ := p
    unfold slookup at h
    unfold sset
    by_cases hk : k = k0
    · simp only [hk, ↓reduceIte, Option.some.injEq] at h
      subst h
      simp [hk, sig, kind]
    · simp only [hk, ↓reduceIte] at h
      have ih := ih h
      simp only [sig] at ih
      simp [hk, sig, ih]

theorem sig_sset_of_none {k : VarName} {s : Scope N} (e : Entry N) (h : slookup k s = none) :
    sig (sset k e s) = sig s ++ [(k, kind e)] := by
  rw [sset_of_none e h]; simp [sig]

theorem keys_eq_sig (s : Scope N) : keys s = (sig s).map (·.1) := by
  simp [keys, sig]

/-! ### the stack: lookup against `firstBinding` -/

theorem firstBinding_nil (k : VarName) : firstBinding k ([] : List (Scope N)) = none := rfl

theorem firstBinding_cons (k : VarName) (s : Scope N) (r : List (Scope N)) :
    firstBinding k (s :: r) =
      match slookup k s with
      | some e => some e
      | none => firstBinding k r := by
  unfold firstBinding
  cases h : slookup k s with
  | none =>
    have : k ∉ keys s := (slookup_none_iff k s).mp h
    simp [this]
  | some e =>
    have : k ∈ keys s := mem_keys_of_slookup h
    simp [this, ← slookup_eq_binding, h]

/-- `firstBinding` is the binding in the innermost scope that binds the key -/
theorem firstBinding_eq_some_iff (k : VarName) (scopes : List (Scope N)) (e : Entry N) :
    firstBinding k scopes = some e ↔
      ∃ pre s post, scopes = pre ++ s :: post ∧ (∀ t ∈ pre, k ∉ keys t) ∧ k ∈ keys s
        ∧ binding k s = some e := by
  induction scopes with
  | nil => simp [firstBinding_nil]
  | cons s r ih =>
    rw [firstBinding_cons]
    cases h : slookup k s with
    | some e0 =>
      constructor
      · intro he
        exact ⟨[], s, r, rfl, by simp, mem_keys_of_slookup h, by rw [← slookup_eq_binding, h]; exact he⟩
      · rintro ⟨pre, s', post, heq, hpre, hmem, hb⟩
        cases pre with
        | nil =>
          simp only [List.nil_append, List.cons.injEq] at heq
          obtain ⟨rfl, rfl⟩ := heq
          rw [← slookup_eq_binding, h] at hb; exact hb
        | cons t pre =>
          simp only [List.cons_append, List.cons.injEq] at heq
          obtain ⟨rfl, rfl⟩ := heq
          exact absurd (mem_keys_of_slookup h) (hpre _ (by simp))
    | none =>
      have hn : k ∉ keys s := (slookup_none_iff k s).mp h
      simp only [ih]
      constructor
      · rintro ⟨pre, s', post, rfl, hpre, hmem, hb⟩
        refine ⟨s :: pre, s', post, rfl, ?_, hmem, hb⟩
        intro t ht
        rcases List.mem_cons.mp ht with rfl | ht
        · exact hn
        · exact hpre t ht
      · rintro ⟨pre, s', post, heq, hpre, hmem, hb⟩
        cases pre with
        | nil =>
          simp only [List.nil_append, List.cons.injEq] at heq
          obtain ⟨rfl, rfl⟩ := heq
          exact absurd hmem hn
        | cons t pre =>
          simp only [List.cons_append, List.cons.injEq] at heq
          obtain ⟨rfl, rfl⟩ := heq
          exact ⟨pre, s', post, rfl, fun t ht => hpre t (by simp [ht]), hmem, hb⟩

theorem firstBinding_eq_none_iff (k : VarName) (scopes : List (Scope N)) :
    firstBinding k scopes = none ↔ ∀ s ∈ scopes, k ∉ keys s := by
  induction scopes with
  | nil => simp [firstBinding_nil]
  | cons s r ih =>
    rw [firstBinding_cons]
    cases h : slookup k s with
    | some e0 => simp [mem_keys_of_slookup h]
    | none => simp [ih, (slookup_none_iff k s).mp h]

/-- `lookup_var_impl` reads the first binding; a function there stops the search -/
theorem lookupVarIn_eq (name : VarName) (scopes : List (Scope N)) :
    lookupVarIn name scopes =
      match firstBinding name.key scopes with
      | some (.var v) => .ok v
      | some (.func _ _) => .error (.expectedVarFoundFunc name)
      | none => .error (.nameNotFound name) := by
  induction scopes with
  | nil => rfl
  | cons s r ih =>
    rw [firstBinding_cons]; unfold lookupVarIn
    cases h : slookup name.key s with
    | none => simpa using ih
    | some e => cases e <;> rfl

/-- `lookup_func` reads the first binding; a variable there stops the search -/
theorem lookupFuncIn_eq (name : VarName) (scopes : List (Scope N)) :
    lookupFuncIn name scopes =
      match firstBinding name.key scopes with
      | some (.func ps b) => .ok (ps, b)
      | some (.var _) => .error (.expectedFuncFoundVar name)
      | none => .error (.nameNotFound name) := by
  induction scopes with
  | nil => rfl
  | cons s r ih =>
    rw [firstBinding_cons]; unfold lookupFuncIn
    cases h : slookup name.key s with
    | none => simpa using ih
    | some e => cases e <;> rfl

theorem lookupVarIn_ok_iff (name : VarName) (scopes : List (Scope N)) (v : Val N) :
    lookupVarIn name scopes = .ok v ↔ firstBinding name.key scopes = some (.var v) := by
  rw [lookupVarIn_eq]
  cases h : firstBinding name.key scopes with
  | none => simp
  | some e => cases e <;> simp

/-- `setVarIn` rewrites exactly the innermost scope that binds the key -/
theorem setVarIn_eq (name : VarName) (v : Val N) (pre : List (Scope N)) (s : Scope N)
    (post : List (Scope N)) (hpre : ∀ t ∈ pre, name.key ∉ keys t) (hs : name.key ∈ keys s) :
    setVarIn name v (pre ++ s :: post) = pre ++ sset name.key (.var v) s :: post := by
  induction pre with
  | nil =>
    have : (slookup name.key s).isSome := (slookup_isSome_iff _ _).mpr hs
    cases h : slookup name.key s with
    | none => simp [h] at this
    | some e => simp [setVarIn, h]
  | cons t pre ih =>
    have ht : slookup name.key t = none := (slookup_none_iff _ _).mpr (hpre t (by simp))
    simp only [List.cons_append, setVarIn, ht]
    rw [ih (fun t' ht' => hpre t' (by simp [ht']))]

theorem setVarIn_of_unbound (name : VarName) (v : Val N) (scopes : List (Scope N))
    (h : ∀ s ∈ scopes, name.key ∉ keys s) : setVarIn name v scopes = scopes := by
  induction scopes with
  | nil => rfl
  | cons s r ih =>
    have hs : slookup name.key s = none := (slookup_none_iff _ _).mpr (h s (by simp))
    simp only [setVarIn, hs]
    rw [ih (fun t ht => h t (by simp [ht]))]

theorem setVarIn_length (name : VarName) (v : Val N) (scopes : List (Scope N)) :
    (setVarIn name v scopes).length = scopes.length := by
  induction scopes with
  | nil => rfl
  | cons s rest ih => unfold setVarIn; split <;> simp [ih]

/-- writing a visible variable keeps every signature -/
theorem sigs_setVarIn {name : VarName} {cur : Val N} {scopes : List (Scope N)} (v : Val N)
    (h : lookupVarIn name scopes = .ok cur) :
    (setVarIn name v scopes).map sig = scopes.map sig := by
  induction scopes with
  | nil => rfl
  | cons s r ih =>
    unfold lookupVarIn at h
    unfold setVarIn
    cases hs : slookup name.key s with
    | none =>
      simp only [hs] at h
      simp [ih h]
    | some e =>
      cases e with
      | var v0 => simp [sig_sset_var v hs]
      | func ps b => simp [hs] at h

/-- the value read after a write is the value written -/
theorem lookupVarIn_setVarIn {name : VarName} {cur : Val N} {scopes : List (Scope N)} (v : Val N)
    (h : lookupVarIn name scopes = .ok cur) :
    lookupVarIn name (setVarIn name v scopes) = .ok v := by
  induction scopes with
  | nil => simp [lookupVarIn] at h
  | cons s r ih =>
    unfold lookupVarIn at h
    unfold setVarIn
    cases hs : slookup name.key s with
    | none =>
      simp only [hs] at h
      simp only [lookupVarIn, hs]
      exact ih h
    | some e => simp [lookupVarIn, slookup_sset_self]

/-- a write through `x` leaves the first binding of every other key alone -/
theorem firstBinding_setVarIn_ne {name : VarName} {k : VarName} (hk : k ≠ name.key) (v : Val N)
    (scopes : List (Scope N)) :
    firstBinding k (setVarIn name v scopes) = firstBinding k scopes := by
  induction scopes with
  | nil => rfl
  | cons s r ih =>
    unfold setVarIn
    cases hs : slookup name.key s with
    | none => simp only [firstBinding_cons, ih]
    | some e => simp only [firstBinding_cons, slookup_sset_ne hk]

/-! ### `SymTable::for_function_call` -/

theorem functionScope_acc (args : List (VarName × Val N)) (acc : Scope N)
    (hnd : (keys acc ++ args.map (·.1.key)).Nodup) :
    functionScope args acc = .ok (acc ++ args.map fun a => (a.1.key, Entry.var a.2)) := by
  induction args generalizing acc with
  | nil => simp [functionScope]
  | cons a args ih =>
    obtain ⟨n, v⟩ := a
    have hnot : n.key ∉ keys acc := by
      intro hmem
      have := List.nodup_append.mp hnd
      exact this.2.2 _ hmem _ (by simp) rfl
    have hnone : slookup n.key acc = none := (slookup_none_iff _ _).mpr hnot
    simp only [functionScope, hnone]
    rw [ih]
    · simp [sset_of_none _ hnone]
    · rw [keys_sset_of_none _ hnone]
      simpa using hnd

/-- pairwise different parameter keys: the function scope binds exactly the parameters, in
    order, to the argument values -/
theorem functionScope_ok (args : List (VarName × Val N)) (hnd : (args.map (·.1.key)).Nodup) :
    functionScope args [] = .ok (args.map fun a => (a.1.key, Entry.var a.2)) := by
  have := functionScope_acc args ([] : Scope N) (by simpa [keys] using hnd)
  simpa using this

theorem functionScope_acc_dup (args : List (VarName × Val N)) (acc : Scope N)
    (hnd : ¬ (keys acc ++ args.map (·.1.key)).Nodup) (hacc : (keys acc).Nodup) :
    ∃ n ∈ args.map (·.1), functionScope args acc = .error (.duplicateArgName n) := by
  induction args generalizing acc with
  | nil => simp [hacc] at hnd
  | cons a args ih =>
    obtain ⟨n, v⟩ := a
    cases hl : slookup n.key acc with
    | some e => exact ⟨n, by simp, by simp [functionScope, hl]⟩
    | none =>
      have hnot : n.key ∉ keys acc := (slookup_none_iff _ _).mp hl
      simp only [functionScope, hl]
      have := ih (sset n.key (.var v) acc) (by
        rw [keys_sset_of_none _ hl]; simpa using hnd) (by
        rw [keys_sset_of_none _ hl]
        exact List.nodup_append.mpr ⟨hacc, by simp, by
          intro a ha b hb; simp at hb; subst hb; exact fun h => hnot (h ▸ ha)⟩)
      obtain ⟨m, hm, heq⟩ := this
      exact ⟨m, by simp at hm ⊢; exact .inr hm, heq⟩

/-- two parameters with the same key: `DuplicateArgName` -/
theorem functionScope_dup (args : List (VarName × Val N)) (hnd : ¬ (args.map (·.1.key)).Nodup) :
    ∃ n ∈ args.map (·.1), functionScope args [] = .error (.duplicateArgName n) :=
  functionScope_acc_dup args [] (by simpa [keys] using hnd) (by simp [keys])

/-! ### what interpretation can do to the scope stack -/

/-- The effect of a terminating piece of interpretation on the scope stack is a finite sequence
    of (a) writes to a *visible variable* through `setVarIn`, and (b) creations of a fresh key
    in the *innermost* scope. Nothing else ever touches a pre-existing scope. -/
inductive Step : List (Scope N) → List (Scope N) → Prop
  | refl (σ : List (Scope N)) : Step σ σ
  | set (name : VarName) (v cur : Val N) (σ : List (Scope N)) :
      lookupVarIn name σ = .ok cur → Step σ (setVarIn name v σ)
  | create (k : VarName) (e : Entry N) (s : Scope N) (r : List (Scope N)) :
      slookup k s = none → Step (s :: r) (sset k e s :: r)
  | trans {a b c : List (Scope N)} : Step a b → Step b c → Step a c

/-- what happened below the innermost scope is again such a sequence -/
theorem Step.tail {a b : List (Scope N)} (h : Step a b) :
    ∀ sc σ, a = sc :: σ → ∃ sc' σ', b = sc' :: σ' ∧ Step σ σ' := by
  induction h with
  | refl σ => intro sc σ' h; exact ⟨sc, σ', h, .refl _⟩
  | set name v cur σ hl =>
    intro sc σ' h; subst h
    unfold lookupVarIn at hl
    unfold setVarIn
    cases hs : slookup name.key sc with
    | none =>
      simp only [hs] at hl
      exact ⟨_, _, rfl, .set name v cur σ' hl⟩
    | some e => exact ⟨_, _, rfl, .refl _⟩
  | create k e s r hn =>
    intro sc σ' h
    simp only [List.cons.injEq] at h
    obtain ⟨rfl, rfl⟩ := h
    exact ⟨_, _, rfl, .refl _⟩
  | trans h1 h2 ih1 ih2 =>
    intro sc σ h
    obtain ⟨sc1, σ1, hb, hs1⟩ := ih1 sc σ h
    obtain ⟨sc2, σ2, hc, hs2⟩ := ih2 sc1 σ1 hb
    exact ⟨sc2, σ2, hc, hs1.trans hs2⟩

/-- only the innermost scope gained entries (at its end); every other scope, and the old part
    of the innermost one, kept its signature (keys, which keys are functions, and which) -/
def ScExt : List (Scope N) → List (Scope N) → Prop
  | [], [] => True
  | s :: r, s' :: r' => sig s <+: sig s' ∧ r'.map sig = r.map sig
  | _, _ => False

theorem ScExt.of_sigs_eq {a b : List (Scope N)} (h : b.map sig = a.map sig) : ScExt a b := by
  cases a <;> cases b <;> simp_all [ScExt]

theorem ScExt.trans {a b c : List (Scope N)} (h1 : ScExt a b) (h2 : ScExt b c) : ScExt a c := by
  cases a <;> cases b <;> cases c <;> simp_all [ScExt]
  exact h1.1.trans h2.1

theorem Step.scExt {a b : List (Scope N)} (h : Step a b) : ScExt a b := by
  induction h with
  | refl σ => exact .of_sigs_eq rfl
  | set name v cur σ hl => exact .of_sigs_eq (sigs_setVarIn v hl)
  | create k e s r hn =>
    simp only [ScExt, sig_sset_of_none e hn, and_true]
    exact List.prefix_append _ _
  | trans _ _ ih1 ih2 => exact ih1.trans ih2

theorem ScExt.length {a b : List (Scope N)} (h : ScExt a b) : b.length = a.length := by
  cases a <;> cases b <;> simp_all [ScExt]
  simpa using congrArg List.length h.2

/-- `ScExt` in terms of key lists -/
theorem ScExt.doms {a b : List (Scope N)} (h : ScExt a b) :
    (b.map keys).tail = (a.map keys).tail ∧ (a.map keys).headD [] <+: (b.map keys).headD [] := by
  cases a <;> cases b <;> simp_all [ScExt]
  rename_i s r s' r'
  constructor
  · have hk : (keys : Scope N → List VarName) = List.map (·.1) ∘ sig := by
      funext s; simp [keys, sig]
    have := congrArg (List.map (List.map (·.1))) h.2
    rw [hk]; simpa using this
  · rw [keys_eq_sig, keys_eq_sig]; exact h.1.map _

/-- `ScExt` in terms of signatures -/
theorem ScExt.sigs {a b : List (Scope N)} (h : ScExt a b) :
    (b.map sig).tail = (a.map sig).tail ∧ (a.map sig).headD [] <+: (b.map sig).headD [] := by
  cases a <;> cases b <;> simp_all [ScExt]

/-- a block that ran in a scope of its own and whose scope has been popped: the signatures of
    the remaining scopes are exactly what they were when the scope was pushed -/
theorem ScExt.popped {sc sc' : Scope N} {σ σ' : List (Scope N)} (h : ScExt (sc :: σ) (sc' :: σ')) :
    σ'.map sig = σ.map sig := h.2

/-! ### shadowing: a scope that binds a key shields everything below it -/

/-- for every scope of the stack and every key it binds: the bindings of that key in all the
    scopes *below* it are unchanged -/
def Shielded : List (Scope N) → List (Scope N) → Prop
  | [], [] => True
  | s :: r, s' :: r' => (∀ k ∈ keys s, r'.map (slookup k) = r.map (slookup k)) ∧ Shielded r r'
  | _, _ => False

theorem Shielded.refl (a : List (Scope N)) : Shielded a a := by
  induction a with
  | nil => trivial
  | cons s r ih => exact ⟨fun _ _ => rfl, ih⟩

theorem map_slookup_setVarIn_ne {name k : VarName} (hk : k ≠ name.key) (v : Val N)
    (scopes : List (Scope N)) :
    (setVarIn name v scopes).map (slookup k) = scopes.map (slookup k) := by
  induction scopes with
  | nil => rfl
  | cons s r ih =>
    unfold setVarIn
    cases hs : slookup name.key s with
    | none => simp [ih]
    | some e => simp [slookup_sset_ne hk]

theorem Shielded.setVarIn (name : VarName) (v : Val N) (scopes : List (Scope N)) :
    Shielded scopes (setVarIn name v scopes) := by
  induction scopes with
  | nil => trivial
  | cons s r ih =>
    unfold Env.setVarIn
    cases hs : slookup name.key s with
    | none =>
      refine ⟨fun k hk => map_slookup_setVarIn_ne ?_ v r, ih⟩
      rintro rfl
      exact (slookup_none_iff _ _).mp hs hk
    | some e => exact ⟨fun _ _ => rfl, .refl _⟩

theorem ScExt.keys_head_mono {s s' : Scope N} {r r' : List (Scope N)} (h : ScExt (s :: r) (s' :: r'))
    {k : VarName} (hk : k ∈ keys s) : k ∈ keys s' := by
  have : keys s <+: keys s' := by rw [keys_eq_sig, keys_eq_sig]; exact h.1.map _
  exact this.subset hk

theorem Shielded.trans {a b c : List (Scope N)} (hab : ScExt a b) (h1 : Shielded a b)
    (h2 : Shielded b c) : Shielded a c := by
  induction a generalizing b c with
  | nil => cases b <;> cases c <;> simp_all [Shielded]
  | cons s r ih =>
    cases b with
    | nil => exact h1.elim
    | cons s' r' =>
      cases c with
      | nil => exact h2.elim
      | cons s'' r'' =>
        refine ⟨fun k hk => ?_, ih (.of_sigs_eq hab.2) h1.2 h2.2⟩
        rw [h2.1 k (hab.keys_head_mono hk), h1.1 k hk]

theorem Step.shielded {a b : List (Scope N)} (h : Step a b) : Shielded a b := by
  induction h with
  | refl σ => exact .refl _
  | set name v cur σ hl => exact .setVarIn name v σ
  | create k e s r hn => exact ⟨fun _ _ => rfl, .refl _⟩
  | trans h1 _ ih1 ih2 => exact ih1.trans h1.scExt ih2

end C05
end Rrss
