/-
  Rrss.Lemmas.ParserSuffixStmt — `Sound` (see Rrss/Lemmas/ParserSuffix.lean) for the statement
  parsers, the blocks and the top-level loop; the invariant for every `parser n`.
-/
import Rrss.Lemmas.ParserSuffix
namespace Rrss
namespace Parser

open Lexer (isWord substr)

set_option linter.unusedVariables false
set_option linter.unusedSectionVars false

variable {N : Type} {α β : Type} [CharOps] {rec : Rec N}

/-! ### statements -/

theorem parsePutAssignment_sound (hr : RecSound rec) : Sound (parsePutAssignment rec) := by
  unfold parsePutAssignment; snorm; sauto
register_sound parsePutAssignment_sound (by assumption)

theorem parseLetAssignment_sound (hr : RecSound rec) : Sound (parseLetAssignment rec) := by
  unfold parseLetAssignment; snorm; sauto
register_sound parseLetAssignment_sound (by assumption)

/-- like `Sound`, but an error may also name the token `t` (consumed just before) -/
structure SoundOr (t : Tok N) (p : P N α) : Prop where
  ok : ∀ st a st', p st = .ok (a, st') → Step st st'
  err : ∀ st e, p st = .err e → ErrAt st e ∨ e.loc = .token t

theorem SoundOr.of_sound {t : Tok N} {p : P N α} (h : Sound p) : SoundOr t p :=
  ⟨h.ok, fun st e he => Or.inl (h.err st e he)⟩

/-- the only error not built by `new_parse_error`: it names the token `advance` just consumed -/
theorem SoundOr.fail {t : Tok N} {c : PCode N} : SoundOr t (P.fail ⟨c, .token t⟩ : P N α) :=
  ⟨fun st _ _ h => by simp [P.fail] at h,
   fun st e h => by simp only [P.fail] at h; cases h; exact Or.inr rfl⟩

theorem SoundOr.bind {t : Tok N} {x : P N α} {f : α → P N β} (hx : SoundOr t x)
    (hf : ∀ a, SoundOr t (f a)) : SoundOr t (P.bind x f) := by
  constructor
  · intro st b st'' h
    simp only [P.bind] at h
    cases hxs : x st with
    | ok r =>
      obtain ⟨a, st'⟩ := r
      rw [hxs] at h
      exact (hx.ok _ _ _ hxs).trans ((hf a).ok _ _ _ h)
    | _ => rw [hxs] at h; cases h
  · intro st e h
    simp only [P.bind] at h
    cases hxs : x st with
    | ok r =>
      obtain ⟨a, st'⟩ := r
      rw [hxs] at h
      rcases (hf a).err _ _ h with h' | h'
      · exact Or.inl (ErrAt.of_step (hx.ok _ _ _ hxs) h')
      · exact Or.inr h'
    | err e' => rw [hxs] at h; cases h; exact hx.err _ _ hxs
    | _ => rw [hxs] at h; cases h

theorem advance_some {st st' : PState N} {t : Tok N} (h : advance st = .ok (some t, st')) :
    st.toks = t :: st'.toks := by
  unfold advance at h
  split at h
  · next t' ts hs => cases h; exact hs
  · cases h

/-- after `advance` returned `some t`, an error may name `t`: it is a token of the input -/
theorem Sound.advance_bind {f : Option (Tok N) → P N β} (hnone : Sound (f none))
    (hsome : ∀ t, SoundOr t (f (some t))) : Sound (P.bind advance f) := by
  constructor
  · intro st b st'' h
    simp only [P.bind] at h
    cases hxs : advance st with
    | ok r =>
      obtain ⟨o, st'⟩ := r
      rw [hxs] at h
      have h1 := advance_sound.ok _ _ _ hxs
      cases o with
      | none => exact h1.trans (hnone.ok _ _ _ h)
      | some t => exact h1.trans ((hsome t).ok _ _ _ h)
    | _ => rw [hxs] at h; cases h
  · intro st e h
    simp only [P.bind] at h
    cases hxs : advance st with
    | ok r =>
      obtain ⟨o, st'⟩ := r
      rw [hxs] at h
      have h1 := advance_sound.ok _ _ _ hxs
      cases o with
      | none => exact ErrAt.of_step h1 (hnone.err _ _ h)
      | some t =>
        rcases (hsome t).err _ _ h with h' | h'
        · exact ErrAt.of_step h1 h'
        · exact ⟨st', h1, Or.inr ⟨[], t, advance_some hxs, h'⟩⟩
    | err e' => rw [hxs] at h; cases h; exact advance_sound.err _ _ hxs
    | _ => rw [hxs] at h; cases h

theorem poeticLoopBody_sound (hr : RecSound rec) : Sound (poeticLoopBody rec) := by
  unfold poeticLoopBody; snorm
  refine Sound.bind (by sleaf) (fun t => ?_)
  cases t with
  | none => sleaf
  | some tok =>
    dsimp only
    by_cases hh : isHyphen tok = true
    · simp only [hh, if_true]
      split
      iterate 4 (next => sauto)
      refine Sound.advance_bind ?_ (fun t => ?_)
      · dsimp only; sauto
      · dsimp only
        split
        · exact SoundOr.of_sound (by sauto)
        · exact SoundOr.bind SoundOr.fail (fun _ => SoundOr.of_sound (by sauto))
    · simp only [hh]
      sauto
register_sound poeticLoopBody_sound (by assumption)

theorem parsePoeticNumberLiteral_sound (hr : RecSound rec) :
    Sound (parsePoeticNumberLiteral rec) := by
  unfold parsePoeticNumberLiteral; snorm; sauto
register_sound parsePoeticNumberLiteral_sound (by assumption)

theorem parsePoeticNumberAssignmentRhs_sound (hr : RecSound rec) :
    Sound (parsePoeticNumberAssignmentRhs rec) := by
  unfold parsePoeticNumberAssignmentRhs; snorm; sauto
register_sound parsePoeticNumberAssignmentRhs_sound (by assumption)

theorem getLiteralText_sound {says : Tok N} {stop : Option (Tok N)} :
    Sound (getLiteralText says stop) :=
  Sound.of_read fun st => by
    unfold getLiteralText
    split
    · exact Or.inl ⟨_, rfl⟩
    · exact Or.inr ⟨_, rfl⟩
register_sound getLiteralText_sound

theorem parsePoeticStringAssignmentRhs_sound {says : Tok N} :
    Sound (parsePoeticStringAssignmentRhs says) := by
  unfold parsePoeticStringAssignmentRhs; snorm; sauto
register_sound parsePoeticStringAssignmentRhs_sound

theorem parsePoeticAssignment_sound (hr : RecSound rec) (i : Ident) (r : Range) :
    Sound (parsePoeticAssignment rec i r) := by
  unfold parsePoeticAssignment; snorm; sauto
register_sound parsePoeticAssignment_sound (by assumption) _ _

theorem paramsLoopBody_sound (hr : RecSound rec) : Sound (paramsLoopBody rec) :=
  paramLoopBody_sound (expectVariableName_sound hr) hr.paramsLoop
register_sound paramsLoopBody_sound (by assumption)

theorem parseFunction_sound (hr : RecSound rec) (name : VarName) (r : Range) :
    Sound (parseFunction rec name r) := by
  have := parseParameterList_sound (rc := false) (expectVariableName_sound hr) hr.paramsLoop
  unfold parseFunction; snorm; sauto
register_sound parseFunction_sound (by assumption) _ _

theorem asVariableName_sound {i : Ident} {r : Range} : Sound (asVariableName i r : P N _) := by
  unfold asVariableName; cases i <;> sauto
register_sound asVariableName_sound

theorem parseStatementStartingWithWord_sound (hr : RecSound rec) :
    Sound (parseStatementStartingWithWord rec) := by
  unfold parseStatementStartingWithWord; snorm; sauto
register_sound parseStatementStartingWithWord_sound (by assumption)

theorem parseIfStatement_sound (hr : RecSound rec) : Sound (parseIfStatement rec) := by
  unfold parseIfStatement; snorm; sauto
register_sound parseIfStatement_sound (by assumption)

theorem parseLoop_sound (hr : RecSound rec) (k : TK) : Sound (parseLoop rec k) := by
  unfold parseLoop; snorm; sauto
register_sound parseLoop_sound (by assumption) _

theorem buildKnockLoopBody_sound (hr : RecSound rec) (k : TK) :
    Sound (buildKnockLoopBody rec k) := by
  unfold buildKnockLoopBody; snorm; sauto
register_sound buildKnockLoopBody_sound (by assumption) _

theorem parseBuildKnockHelper_sound (hr : RecSound rec) (b s : TK) :
    Sound (parseBuildKnockHelper rec b s) := by
  unfold parseBuildKnockHelper; snorm; sauto
register_sound parseBuildKnockHelper_sound (by assumption) _ _

theorem parseBuild_sound (hr : RecSound rec) : Sound (parseBuild rec) := by
  unfold parseBuild; snorm; sauto
register_sound parseBuild_sound (by assumption)

theorem parseKnock_sound (hr : RecSound rec) : Sound (parseKnock rec) := by
  unfold parseKnock; snorm; sauto
register_sound parseKnock_sound (by assumption)

theorem parseSay_sound (hr : RecSound rec) : Sound (parseSay rec) := by
  unfold parseSay; snorm; sauto
register_sound parseSay_sound (by assumption)

theorem parseListen_sound (hr : RecSound rec) : Sound (parseListen rec) := by
  unfold parseListen; snorm; sauto
register_sound parseListen_sound (by assumption)

theorem checkMutationArgs_sound {o : Primary N} {d : Option (Lhs N)} :
    Sound (checkMutationArgs o d) := by
  unfold checkMutationArgs; sauto
register_sound checkMutationArgs_sound

theorem parseMutation_sound (hr : RecSound rec) : Sound (parseMutation rec) := by
  unfold parseMutation; snorm; sauto
register_sound parseMutation_sound (by assumption)

theorem parseRoundingDirection_sound : Sound (parseRoundingDirection : P N _) := by
  unfold parseRoundingDirection; snorm; sauto
register_sound parseRoundingDirection_sound

theorem parseRounding_sound (hr : RecSound rec) : Sound (parseRounding rec) := by
  unfold parseRounding; snorm; sauto
register_sound parseRounding_sound (by assumption)

theorem parseBreak_sound : Sound (parseBreak : P N _) := by
  unfold parseBreak; snorm; sauto
register_sound parseBreak_sound

theorem parseSimpleContinue_sound : Sound (parseSimpleContinue : P N _) := by
  unfold parseSimpleContinue; snorm; sauto
register_sound parseSimpleContinue_sound

theorem parseTakeItToTheTop_sound : Sound (parseTakeItToTheTop : P N _) := by
  unfold parseTakeItToTheTop; snorm; sauto
register_sound parseTakeItToTheTop_sound

theorem parseArrayPushRhs_sound (hr : RecSound rec) : Sound (parseArrayPushRhs rec) := by
  unfold parseArrayPushRhs; snorm; sauto
register_sound parseArrayPushRhs_sound (by assumption)

theorem parseArrayPush_sound (hr : RecSound rec) : Sound (parseArrayPush rec) := by
  unfold parseArrayPush; snorm; sauto
register_sound parseArrayPush_sound (by assumption)

theorem parseArrayPop_sound (hr : RecSound rec) : Sound (parseArrayPop rec) := by
  unfold parseArrayPop; snorm; sauto
register_sound parseArrayPop_sound (by assumption)

theorem parseReturn_sound (hr : RecSound rec) : Sound (parseReturn rec) := by
  unfold parseReturn; snorm; sauto
register_sound parseReturn_sound (by assumption)

theorem parseStatement_sound (hr : RecSound rec) : Sound (parseStatement rec) := by
  unfold parseStatement; snorm; sauto
register_sound parseStatement_sound (by assumption)

theorem stmtLoopBody_sound (hr : RecSound rec) : Sound (stmtLoopBody rec) := by
  unfold stmtLoopBody; snorm; sauto
register_sound stmtLoopBody_sound (by assumption)

theorem parseBlock_sound (hr : RecSound rec) : Sound (parseBlock rec) := by
  unfold parseBlock; snorm; sauto
register_sound parseBlock_sound (by assumption)

theorem fnStmtLoopBody_sound (hr : RecSound rec) : Sound (fnStmtLoopBody rec) := by
  unfold fnStmtLoopBody; snorm; sauto
register_sound fnStmtLoopBody_sound (by assumption)

theorem parseFunctionBlock_sound (hr : RecSound rec) : Sound (parseFunctionBlock rec) := by
  unfold parseFunctionBlock; snorm; sauto
register_sound parseFunctionBlock_sound (by assumption)

theorem topLoopAfterBlock_sound (hr : RecSound rec) (b : Block N) :
    Sound (topLoopAfterBlock rec b) := by
  unfold topLoopAfterBlock; snorm; sauto
register_sound topLoopAfterBlock_sound (by assumption) _

theorem topLoopBody_sound (hr : RecSound rec) : Sound (topLoopBody rec) := by
  unfold topLoopBody; snorm; sauto
register_sound topLoopBody_sound (by assumption)

theorem parseProgramBody_sound (hr : RecSound rec) : Sound (parseProgramBody rec) := by
  unfold parseProgramBody; snorm; sauto
register_sound parseProgramBody_sound (by assumption)

/-! ### tying the knot -/

theorem mkRec_sound (hr : RecSound rec) : RecSound (mkRec rec) where
  unary := parseUnary_sound hr
  primary := parsePrimary_sound hr
  subscriptChain := subscriptChain_sound hr
  binLoop := fun lvl e => binLoopBody_sound hr lvl (operandOf_sound hr lvl) e
  listLoop := fun lvl => listLoopBody_sound hr lvl (operandOf_sound hr lvl)
  fancyLoop := fancyLoopBody_sound hr
  argsLoop := argsLoopBody_sound hr
  paramsLoop := paramsLoopBody_sound hr
  poeticLoop := poeticLoopBody_sound hr
  buildKnockLoop := buildKnockLoopBody_sound hr
  capitalizedLoop := capitalizedLoopBody_sound hr
  block := parseBlock_sound hr
  functionBlock := parseFunctionBlock_sound hr
  stmtLoop := stmtLoopBody_sound hr
  fnStmtLoop := fnStmtLoopBody_sound hr
  topLoop := topLoopBody_sound hr
  expression := parseExpression_sound hr
  program := parseProgramBody_sound hr

theorem fuelRec_sound : RecSound (fuelRec : Rec N) where
  unary := Sound.fuel
  primary := Sound.fuel
  subscriptChain := fun _ _ => Sound.fuel
  binLoop := fun _ _ => Sound.fuel
  listLoop := fun _ => Sound.fuel
  fancyLoop := fun _ => Sound.fuel
  argsLoop := Sound.fuel
  paramsLoop := Sound.fuel
  poeticLoop := Sound.fuel
  buildKnockLoop := fun _ => Sound.fuel
  capitalizedLoop := Sound.fuel
  block := Sound.fuel
  functionBlock := Sound.fuel
  stmtLoop := Sound.fuel
  fnStmtLoop := Sound.fuel
  topLoop := Sound.fuel
  expression := Sound.fuel
  program := Sound.fuel

/-- every field of the parser, at every fuel level, is sound -/
theorem parser_recSound (n : Nat) : RecSound (parser n : Rec N) := by
  induction n with
  | zero => exact fuelRec_sound
  | succ n ih => exact mkRec_sound ih

/-! ### no truncation: the top-level loop returns `.ok` only when no token remains -/

/-- `p` answers `.ok` only in a state without tokens -/
def AllConsumed (p : P N α) : Prop := ∀ st a st', p st = .ok (a, st') → st'.toks = []

theorem AllConsumed.bind_right {x : P N α} {f : α → P N β} (hf : ∀ a, AllConsumed (f a)) :
    AllConsumed (P.bind x f) := by
  intro st b st'' h
  simp only [P.bind] at h
  cases hxs : x st with
  | ok r => obtain ⟨a, st'⟩ := r; rw [hxs] at h; exact hf a _ _ _ h
  | _ => rw [hxs] at h; cases h

theorem AllConsumed.bind_left {x : P N α} {f : α → P N β} (hx : AllConsumed x)
    (hf : ∀ a st, ∃ b, f a st = .ok (b, st)) : AllConsumed (P.bind x f) := by
  intro st b st'' h
  simp only [P.bind] at h
  cases hxs : x st with
  | ok r =>
    obtain ⟨a, st'⟩ := r
    rw [hxs] at h
    replace h : f a st' = .ok (b, st'') := h
    obtain ⟨b', hb⟩ := hf a st'
    rw [hb] at h; cases h
    exact hx _ _ _ hxs
  | _ => rw [hxs] at h; cases h

theorem AllConsumed.failWith {c : PCode N} : AllConsumed (failWith c : P N α) :=
  fun st _ _ h => by simp [Parser.failWith] at h

theorem AllConsumed.fuel : AllConsumed (P.fuel : P N α) :=
  fun st _ _ h => by simp [P.fuel] at h

theorem topLoopBody_allConsumed (h : AllConsumed rec.topLoop) : AllConsumed (topLoopBody rec) := by
  unfold topLoopBody; snorm
  intro st a st' hp
  simp only [P.bind, current] at hp
  cases hs : st.toks with
  | nil =>
    simp only [hs, List.head?_nil] at hp
    cases hp; exact hs
  | cons t ts =>
    simp only [hs, List.head?_cons] at hp
    refine AllConsumed.bind_right (x := parseBlock rec) (fun block => ?_) st a st' hp
    unfold topLoopAfterBlock; snorm
    refine AllConsumed.bind_right (fun se => ?_)
    split
    · exact AllConsumed.failWith
    · refine AllConsumed.bind_left h (fun rest st => ?_)
      split <;> exact ⟨_, rfl⟩

theorem parseProgramBody_allConsumed (h : AllConsumed rec.topLoop) :
    AllConsumed (parseProgramBody rec) := by
  unfold parseProgramBody; snorm
  exact AllConsumed.bind_left (topLoopBody_allConsumed h) (fun _ _ => ⟨_, rfl⟩)

/-- at every fuel level, the top-level loop and `Parser::parse` accept only when every token
    has been consumed -/
theorem parser_allConsumed (n : Nat) :
    AllConsumed (parser n : Rec N).topLoop ∧ AllConsumed (parser n : Rec N).program := by
  induction n with
  | zero => exact ⟨AllConsumed.fuel, AllConsumed.fuel⟩
  | succ n ih => exact ⟨topLoopBody_allConsumed ih.1, parseProgramBody_allConsumed ih.1⟩

end Parser
end Rrss
