/-
  Rrss.Lemmas.EnvFrame — frame lemmas for the environment: `sset` / `slookup` / `setVarIn` /
  `lookupVarIn`, `Interp.resolve`, `Interp.writeCell` (C06.8, C07.5).
-/
import Rrss.Interp
namespace Rrss
namespace Env
variable [CharOps] {N : Type}

/-! ### one scope -/

omit [CharOps] in
@[simp] theorem slookup_sset_same (k : VarName) (e : Entry N) (s : Scope N) :
    slookup k (sset k e s) = some e := by
  induction s with
  | nil => simp [sset, slookup]
  | cons p rest ih =>
    obtain ⟨k', e'⟩ := p
    by_cases h : k = k'
    · simp [sset, slookup, h]
    · simp [sset, slookup, h, ih]

omit [CharOps] in
theorem slookup_sset_other (k k' : VarName) (e : Entry N) (s : Scope N) (h : k' ≠ k) :
    slookup k' (sset k e s) = slookup k' s := by
  induction s with
  | nil => simp [sset, slookup, h]
  | cons p rest ih =>
    obtain ⟨k₀, e₀⟩ := p
    by_cases h0 : k = k₀
    · subst h0; simp [sset, slookup, h]
    · by_cases h1 : k' = k₀
      · simp [sset, slookup, h0, h1]
      · simp [sset, slookup, h0, h1, ih]

/-! ### the scope stack -/

theorem lookupVarIn_setVarIn_other (x y : VarName) (v : Val N) (scopes : List (Scope N))
    (h : y.key ≠ x.key) : lookupVarIn y (setVarIn x v scopes) = lookupVarIn y scopes := by
  induction scopes with
  | nil => rfl
  | cons s rest ih =>
    simp only [setVarIn]
    split
    · simp only [lookupVarIn, slookup_sset_other _ _ _ _ h]
    · simp only [lookupVarIn, ih]

theorem lookupFuncIn_setVarIn_other (x y : VarName) (v : Val N) (scopes : List (Scope N))
    (h : y.key ≠ x.key) : lookupFuncIn y (setVarIn x v scopes) = lookupFuncIn y scopes := by
  induction scopes with
  | nil => rfl
  | cons s rest ih =>
    simp only [setVarIn]
    split
    · simp only [lookupFuncIn, slookup_sset_other _ _ _ _ h]
    · simp only [lookupFuncIn, ih]

theorem lookupVarIn_setVarIn_same (x : VarName) (v cur : Val N) (scopes : List (Scope N))
    (h : lookupVarIn x scopes = .ok cur) : lookupVarIn x (setVarIn x v scopes) = .ok v := by
  induction scopes with
  | nil => simp [lookupVarIn] at h
  | cons s rest ih =>
    simp only [setVarIn]
    cases hs : slookup x.key s with
    | some e => simp [lookupVarIn]
    | none =>
      simp only [lookupVarIn, hs] at h ⊢
      exact ih h

theorem lookupVarIn_sset_head_other (x y : VarName) (e : Entry N) (s : Scope N)
    (rest : List (Scope N)) (h : y.key ≠ x.key) :
    lookupVarIn y (sset x.key e s :: rest) = lookupVarIn y (s :: rest) := by
  simp only [lookupVarIn, slookup_sset_other _ _ _ _ h]

theorem lookupFuncIn_sset_head_other (x y : VarName) (e : Entry N) (s : Scope N)
    (rest : List (Scope N)) (h : y.key ≠ x.key) :
    lookupFuncIn y (sset x.key e s :: rest) = lookupFuncIn y (s :: rest) := by
  simp only [lookupFuncIn, slookup_sset_other _ _ _ _ h]

theorem lookupVarIn_sset_head_same (x : VarName) (v : Val N) (s : Scope N)
    (rest : List (Scope N)) :
    lookupVarIn x (sset x.key (.var v) s :: rest) = .ok v := by
  simp [lookupVarIn]

end Env

namespace Interp
variable [CharOps] {N : Type} [NumOps N]
open Env

/-! ### `resolve` -/

omit [NumOps N] in
/-- What `resolve (.var x)` does: it records `x` as last accessed and, if `x` is not bound as a
    variable, binds it to mysterious in the innermost scope; nothing else. On success it
    answers `x` and the value now bound to `x`. -/
theorem resolve_var (x : VarName) (env : Env N) :
    ∃ scopes', (resolve (.var x) env).2 = { env with last := some x, scopes := scopes' } ∧
      (∀ y : VarName, y.key ≠ x.key → lookupVarIn y scopes' = lookupVarIn y env.scopes) ∧
      (∀ y : VarName, y.key ≠ x.key → lookupFuncIn y scopes' = lookupFuncIn y env.scopes) ∧
      (∀ r, (resolve (.var x) env).1 = .ok r →
          r.1 = x ∧ lookupVarIn x scopes' = .ok r.2 ∧
          ((lookupVarIn x env.scopes = .ok r.2 ∧ scopes' = env.scopes) ∨
           ((∃ e, lookupVarIn x env.scopes = .error e) ∧ r.2 = .undef))) ∧
      (resolve (.var x) env).1 ≠ .fuel ∧ (resolve (.var x) env).1 ≠ .resource ∧
      (∀ s, (resolve (.var x) env).1 = .crash s → env.scopes = []) := by
  simp only [resolve]
  cases hl : lookupVarIn x env.scopes with
  | ok v =>
    refine ⟨env.scopes, rfl, fun _ _ => rfl, fun _ _ => rfl, ?_, by simp, by simp, by simp⟩
    intro r hr
    cases hr
    exact ⟨rfl, hl, .inl ⟨rfl, rfl⟩⟩
  | error e =>
    cases hsc : env.scopes with
    | nil =>
      refine ⟨[], ?_, fun _ _ => rfl, fun _ _ => rfl, ?_, by simp, by simp, by simp⟩
      · simp
      · intro r hr; simp at hr
    | cons s rest =>
      cases hs : slookup x.key s with
      | some e' =>
        simp only [hs]
        refine ⟨s :: rest, ?_, fun _ _ => rfl, fun _ _ => rfl, ?_, by simp, by simp, by simp⟩
        · simp
        · intro r hr; simp at hr
      | none =>
        simp only [hs]
        refine ⟨sset x.key (.var .undef) s :: rest, ?_,
          fun y hy => lookupVarIn_sset_head_other x y _ s rest hy,
          fun y hy => lookupFuncIn_sset_head_other x y _ s rest hy, ?_, by simp, by simp, by simp⟩
        · simp
        intro r hr
        cases hr
        exact ⟨rfl, lookupVarIn_sset_head_same x .undef s rest, .inr ⟨⟨e, rfl⟩, rfl⟩⟩

omit [NumOps N] in
/-- `resolve .pronoun` changes nothing; on success it answers the last accessed name and its
    value. -/
theorem resolve_pronoun (env : Env N) :
    (resolve .pronoun env).2 = env ∧
      (∀ r, (resolve .pronoun env).1 = .ok r →
          env.last = some r.1 ∧ lookupVarIn r.1 env.scopes = .ok r.2) ∧
      (env.last = none → (resolve .pronoun env).1 = .err .missingPronoun) ∧
      (∀ s, (resolve .pronoun env).1 ≠ .crash s) ∧
      (resolve .pronoun env).1 ≠ .fuel ∧ (resolve .pronoun env).1 ≠ .resource := by
  simp only [resolve]
  cases hlast : env.last with
  | none => simp
  | some name =>
    cases hl : lookupVarIn name env.scopes with
    | ok v =>
      simp only [hl]
      refine ⟨by simp, ?_, by simp, by simp, by simp, by simp⟩
      intro r hr; cases hr; exact ⟨rfl, hl⟩
    | error e => simp [hl]

/-! ### `writeCell` in terms of `resolve` -/

/-- the outcome `writeCell` makes of the status of `updateAt` -/
def cellOutcome (status : VRes N (Option (Val N))) : Outcome (RtErr N) (WOut N) :=
  match status with
  | .ok back => .ok { res := .ok (), back := back }
  | .err e => .ok { res := .error (.val e) }
  | .crash s => .crash s
  | .fuel => .fuel
  | .resource => .resource

theorem writeCell_of_resolve_ok (w : Writer N) (t : Target) (keys : List (Val N))
    (env env1 : Env N) (name : VarName) (cur : Val N)
    (h : resolve t env = (.ok (name, cur), env1)) :
    writeCell w t keys env =
      (cellOutcome (Val.updateAt env1.cap w keys cur).2,
       { env1 with scopes := setVarIn name (Val.updateAt env1.cap w keys cur).1 env1.scopes }) := by
  simp only [writeCell, h, cellOutcome]
  cases (Val.updateAt env1.cap w keys cur).2 <;> rfl

theorem writeCell_of_resolve_err (w : Writer N) (t : Target) (keys : List (Val N))
    (env env1 : Env N) (e : RtErr N) (h : resolve t env = (.err e, env1)) :
    writeCell w t keys env = (.ok { res := .error e }, env1) := by
  simp only [writeCell, h]

theorem writeCell_of_resolve_crash (w : Writer N) (t : Target) (keys : List (Val N))
    (env env1 : Env N) (s : Site) (h : resolve t env = (.crash s, env1)) :
    writeCell w t keys env = (.crash s, env1) := by
  simp only [writeCell, h]


/-! ### `resolve` and `writeCell`, case by case -/

omit [NumOps N] in
theorem resolve_var_bound (x : VarName) (env : Env N) (cur : Val N)
    (h : lookupVarIn x env.scopes = .ok cur) :
    resolve (.var x) env = (.ok (x, cur), { env with last := some x }) := by
  simp only [resolve, h]

omit [NumOps N] in
theorem resolve_var_create (x : VarName) (env : Env N) (e : RtErr N) (s : Scope N)
    (rest : List (Scope N)) (h : lookupVarIn x env.scopes = .error e)
    (hs : env.scopes = s :: rest) (hn : slookup x.key s = none) :
    resolve (.var x) env =
      (.ok (x, .undef),
       { env with last := some x, scopes := sset x.key (.var .undef) s :: rest }) := by
  rw [hs] at h
  simp only [resolve, hs, h, hn]

omit [NumOps N] in
theorem resolve_var_dup (x : VarName) (env : Env N) (e : RtErr N) (s : Scope N)
    (rest : List (Scope N)) (e' : Entry N) (h : lookupVarIn x env.scopes = .error e)
    (hs : env.scopes = s :: rest) (hn : slookup x.key s = some e') :
    resolve (.var x) env = (.err (.duplicateSymbol x), { env with last := some x }) := by
  rw [hs] at h
  simp only [resolve, hs, h, hn]

omit [NumOps N] in
theorem resolve_var_noscope (x : VarName) (env : Env N) (hs : env.scopes = []) :
    resolve (.var x) env = (.crash .envNoScope, { env with last := some x }) := by
  simp only [resolve, hs, lookupVarIn]

theorem writeCell_var_bound (w : Writer N) (x : VarName) (keys : List (Val N)) (env : Env N)
    (cur : Val N) (h : lookupVarIn x env.scopes = .ok cur) :
    writeCell w (.var x) keys env =
      (cellOutcome (Val.updateAt env.cap w keys cur).2,
       { env with last := some x,
                  scopes := setVarIn x (Val.updateAt env.cap w keys cur).1 env.scopes }) := by
  rw [writeCell_of_resolve_ok w _ keys env _ x cur (resolve_var_bound x env cur h)]

theorem writeCell_var_create (w : Writer N) (x : VarName) (keys : List (Val N)) (env : Env N)
    (e : RtErr N) (s : Scope N) (rest : List (Scope N))
    (h : lookupVarIn x env.scopes = .error e) (hs : env.scopes = s :: rest)
    (hn : slookup x.key s = none) :
    writeCell w (.var x) keys env =
      (cellOutcome (Val.updateAt env.cap w keys .undef).2,
       { env with last := some x,
                  scopes := setVarIn x (Val.updateAt env.cap w keys .undef).1
                              (sset x.key (.var .undef) s :: rest) }) := by
  rw [writeCell_of_resolve_ok w _ keys env _ x .undef (resolve_var_create x env e s rest h hs hn)]

theorem writeCell_var_dup (w : Writer N) (x : VarName) (keys : List (Val N)) (env : Env N)
    (e : RtErr N) (s : Scope N) (rest : List (Scope N)) (e' : Entry N)
    (h : lookupVarIn x env.scopes = .error e) (hs : env.scopes = s :: rest)
    (hn : slookup x.key s = some e') :
    writeCell w (.var x) keys env =
      (.ok { res := .error (.duplicateSymbol x) }, { env with last := some x }) := by
  rw [writeCell_of_resolve_err w _ keys env _ _ (resolve_var_dup x env e s rest e' h hs hn)]

theorem writeCell_var_noscope (w : Writer N) (x : VarName) (keys : List (Val N)) (env : Env N)
    (hs : env.scopes = []) :
    writeCell w (.var x) keys env = (.crash .envNoScope, { env with last := some x }) := by
  rw [writeCell_of_resolve_crash w _ keys env _ _ (resolve_var_noscope x env hs)]

theorem writeCell_pronoun_none (w : Writer N) (keys : List (Val N)) (env : Env N)
    (h : env.last = none) :
    writeCell w .pronoun keys env = (.ok { res := .error .missingPronoun }, env) := by
  have : resolve (N := N) .pronoun env = (.err .missingPronoun, env) := by
    simp only [resolve, h]
  rw [writeCell_of_resolve_err w _ keys env _ _ this]

theorem writeCell_pronoun_bound (w : Writer N) (x : VarName) (keys : List (Val N)) (env : Env N)
    (cur : Val N) (h : env.last = some x) (hc : lookupVarIn x env.scopes = .ok cur) :
    writeCell w .pronoun keys env =
      (cellOutcome (Val.updateAt env.cap w keys cur).2,
       { env with scopes := setVarIn x (Val.updateAt env.cap w keys cur).1 env.scopes }) := by
  have : resolve (N := N) .pronoun env = (.ok (x, cur), env) := by
    simp only [resolve, h, hc]
  rw [writeCell_of_resolve_ok w _ keys env _ x cur this]

theorem writeCell_pronoun_unbound (w : Writer N) (x : VarName) (keys : List (Val N))
    (env : Env N) (e : RtErr N) (h : env.last = some x)
    (hc : lookupVarIn x env.scopes = .error e) :
    writeCell w .pronoun keys env = (.ok { res := .error e }, env) := by
  have : resolve (N := N) .pronoun env = (.err e, env) := by
    simp only [resolve, h, hc]
  rw [writeCell_of_resolve_err w _ keys env _ _ this]

omit [NumOps N] in
/-- the four situations `writeCell w (.var x)` can be in -/
theorem var_cases (x : VarName) (env : Env N) :
    (∃ cur, lookupVarIn x env.scopes = .ok cur) ∨
    (env.scopes = []) ∨
    (∃ e s rest, lookupVarIn x env.scopes = .error e ∧ env.scopes = s :: rest ∧
        slookup x.key s = none) ∨
    (∃ e s rest e', lookupVarIn x env.scopes = .error e ∧ env.scopes = s :: rest ∧
        slookup x.key s = some e') := by
  cases hl : lookupVarIn x env.scopes with
  | ok cur => exact .inl ⟨cur, rfl⟩
  | error e =>
    cases hs : env.scopes with
    | nil => exact .inr (.inl rfl)
    | cons s rest =>
      cases hn : slookup x.key s with
      | none => exact .inr (.inr (.inl ⟨e, s, rest, rfl, rfl, hn⟩))
      | some e' => exact .inr (.inr (.inr ⟨e, s, rest, e', rfl, rfl, hn⟩))

/-! ### the monad, step by step -/

omit [CharOps] [NumOps N] in
theorem M_bind_ok {α β} (x : M N α) (f : α → M N β) (env env' : Env N) (a : α)
    (h : x env = (.ok a, env')) : (x >>= f) env = f a env' := by
  show M.bind x f env = _
  simp only [M.bind, h]

omit [CharOps] [NumOps N] in
theorem M_bind_err {α β} (x : M N α) (f : α → M N β) (env env' : Env N) (e : RtErr N)
    (h : x env = (.err e, env')) : (x >>= f) env = (.err e, env') := by
  show M.bind x f env = _
  simp only [M.bind, h]

omit [CharOps] [NumOps N] in
theorem M_bind_crash {α β} (x : M N α) (f : α → M N β) (env env' : Env N) (s : Site)
    (h : x env = (.crash s, env')) : (x >>= f) env = (.crash s, env') := by
  show M.bind x f env = _
  simp only [M.bind, h]

omit [CharOps] [NumOps N] in
theorem tick_succ (env : Env N) (n : Nat) (h : env.steps = n + 1) :
    tick env = (.ok (), { env with steps := n }) := by
  simp only [tick, h]

omit [CharOps] [NumOps N] in
/-- `fatal` after a `writeCell` that returned -/
theorem fatal_run (o : M N (WOut N)) (env env' : Env N) (out : WOut N)
    (h : o env = (.ok out, env')) :
    fatal o env = ((match out.res with | .ok () => .ok () | .error e => .err e), env') := by
  unfold fatal
  rw [M_bind_ok _ _ _ _ _ h]
  cases hr : out.res <;> rfl

omit [CharOps] [NumOps N] in
theorem fatal_crash (o : M N (WOut N)) (env env' : Env N) (s : Site)
    (h : o env = (.crash s, env')) : fatal o env = (.crash s, env') := by
  unfold fatal
  rw [M_bind_crash _ _ _ _ _ h]

/-- A small `CharOps` (ASCII letters, lower-casing `A`–`Z`) for kernel-evaluated examples. -/
@[instance_reducible] def exampleCharOps : CharOps where
  isAlphabetic c := (65 ≤ c.toNat && c.toNat ≤ 90) || (97 ≤ c.toNat && c.toNat ≤ 122)
  isNumeric c := 48 ≤ c.toNat && c.toNat ≤ 57
  isWhitespace c := c = ' '
  isUppercase c := 65 ≤ c.toNat && c.toNat ≤ 90
  isLowercase c := 97 ≤ c.toNat && c.toNat ≤ 122
  toLower c := if 65 ≤ c.toNat ∧ c.toNat ≤ 90 then [Char.ofNat (c.toNat + 32)] else [c]

end Interp
end Rrss
