/-
  Rrss.Lemmas.LexerC12 — the statements of property C12 (and lexer totality) derived from
  `lexAll_spec`; the theorem files restate them.
-/
import Rrss.Lemmas.LexerTiling
namespace Rrss
namespace Lexer
open Spec

set_option linter.unusedSectionVars false

variable {N : Type}

section
variable [CharOps] [NumOps N]

/-- the tiling of the tokens of `lexAll` -/
theorem lexAll_tiling {kw : List (Str × TK)} {src : Str} {toks : List (Tok N)}
    (hlen : ulen src < 2 ^ 32) (h : lexAll kw src = .ok toks) : Tiling kw [] src toks := by
  obtain ⟨toks', h1, h2⟩ := lexAll_spec (N := N) kw src hlen
  rw [h] at h1
  cases h1
  exact h2

/-- every token of `lexAll` sits right after some prefix of the source -/
theorem lexAll_tok_at {kw : List (Str × TK)} {src : Str} {toks : List (Tok N)}
    (hlen : ulen src < 2 ^ 32) (h : lexAll kw src = .ok toks) {t : Tok N} (ht : t ∈ toks) :
    ∃ p post, src = p ++ t.spelling ++ post ∧ TokAt kw p t := by
  obtain ⟨p, post, h1, h2⟩ := (lexAll_tiling hlen h).tok_at t ht
  exact ⟨p, post, by simpa using h1, h2⟩

theorem c12_total (kw : List (Str × TK)) (src : Str) (hlen : ulen src < 2 ^ 32) :
    ∃ toks : List (Tok N), lexAll kw src = .ok toks := by
  obtain ⟨toks, h1, _⟩ := lexAll_spec (N := N) kw src hlen
  exact ⟨toks, h1⟩

theorem c12_spelling {kw : List (Str × TK)} {src : Str} {toks : List (Tok N)}
    (hlen : ulen src < 2 ^ 32) (h : lexAll kw src = .ok toks) :
    ∀ t ∈ toks, substr src t.start (t.start + ulen t.spelling) = some t.spelling ∧
      t.spelling ≠ [] := by
  intro t ht
  obtain ⟨p, post, h1, h2⟩ := lexAll_tok_at hlen h ht
  exact ⟨substr_mid' h1 h2.start_eq (by rw [h2.start_eq]), h2.ne⟩

theorem c12_order {kw : List (Str × TK)} {src : Str} {toks : List (Tok N)}
    (hlen : ulen src < 2 ^ 32) (h : lexAll kw src = .ok toks) :
    toks.Pairwise (fun t u => t.start + ulen t.spelling ≤ u.start) :=
  (lexAll_tiling hlen h).pairwise

theorem c12_gaps {kw : List (Str × TK)} {src : Str} {toks : List (Tok N)}
    (hlen : ulen src < 2 ^ 32) (h : lexAll kw src = .ok toks) :
    ∀ (p q : Str) (c : Char), src = p ++ c :: q →
      (∀ t ∈ toks, ¬ (t.start ≤ ulen p ∧ ulen p < t.start + ulen t.spelling)) →
      isIgnorableWhitespace c = true ∨ isIgnorablePunctuation c = true ∨ c = '\'' := by
  intro p q c hs hn
  exact (lexAll_tiling hlen h).gaps p q c hs (by simpa using hn)

theorem c12_newlines_covered {kw : List (Str × TK)} {src : Str} {toks : List (Tok N)}
    (hlen : ulen src < 2 ^ 32) (h : lexAll kw src = .ok toks) :
    ∀ (p q : Str), src = p ++ '\n' :: q →
      ∃ t ∈ toks, t.start ≤ ulen p ∧ ulen p < t.start + ulen t.spelling := by
  intro p q hs
  apply Classical.byContradiction
  intro hne
  have hn : ∀ t ∈ toks, ¬ (t.start ≤ ulen p ∧ ulen p < t.start + ulen t.spelling) :=
    fun t ht hc => hne ⟨t, ht, hc⟩
  rcases c12_gaps hlen h p q '\n' hs hn with h1 | h1 | h1
  · simp [isIgnorableWhitespace] at h1
  · revert h1; decide
  · revert h1; decide

theorem c12_start_pos {kw : List (Str × TK)} {src : Str} {toks : List (Tok N)}
    (hlen : ulen src < 2 ^ 32) (hnl : CharOps.isWhitespace '\n' = true)
    (h : lexAll kw src = .ok toks) :
    ∀ t ∈ toks, t.range.start = trueLoc src t.start := by
  intro t ht
  obtain ⟨p, post, h1, h2⟩ := lexAll_tok_at hlen h ht
  rw [h2.range_eq hnl, h2.start_eq, h1, List.append_assoc, trueLoc_append]

theorem c12_stop_pos {kw : List (Str × TK)} {src : Str} {toks : List (Tok N)}
    (hlen : ulen src < 2 ^ 32) (hnl : CharOps.isWhitespace '\n' = true)
    (h : lexAll kw src = .ok toks) :
    ∀ t ∈ toks,
      (t.spelling ≠ ['\n'] → t.range.stop = trueLoc src (t.start + ulen t.spelling)) ∧
      (t.spelling = ['\n'] →
        t.range.stop = ⟨(trueLoc src t.start).line, (trueLoc src t.start).col + 1⟩) := by
  intro t ht
  obtain ⟨p, post, h1, h2⟩ := lexAll_tok_at hlen h ht
  have hr := h2.range_eq hnl
  constructor
  · intro hne
    rw [hr, if_neg hne, h2.start_eq, ← ulen_append, h1, trueLoc_append]
  · intro he
    rw [hr, if_pos he, h2.start_eq, h1, List.append_assoc, trueLoc_append]

theorem locOf_snoc (p : Str) (c : Char) (hc : c ≠ '\n') :
    locOf (p ++ [c]) = ⟨(locOf p).line, (locOf p).col + c.utf8Size⟩ := by
  have hno : ∀ x ∈ [c], x ≠ '\n' := by simpa using hc
  simp [locOf, lastLine_append_noNl _ _ hno, countNl_eq_zero hno]

theorem c12_stop_pos_last_char {kw : List (Str × TK)} {src : Str} {toks : List (Tok N)}
    (hlen : ulen src < 2 ^ 32) (hnl : CharOps.isWhitespace '\n' = true)
    (h : lexAll kw src = .ok toks) :
    ∀ t ∈ toks, ∀ (init : Str) (last : Char), t.spelling = init ++ [last] → last ≠ '\n' →
      t.range.stop = ⟨(trueLoc src (t.start + ulen init)).line,
                      (trueLoc src (t.start + ulen init)).col + last.utf8Size⟩ := by
  intro t ht init last hsp hlast
  obtain ⟨p, post, h1, h2⟩ := lexAll_tok_at hlen h ht
  have hne : t.spelling ≠ ['\n'] := by
    intro he; rw [he] at hsp
    cases init with
    | nil => simp at hsp; exact hlast hsp.symm
    | cons d ds => cases ds <;> simp at hsp
  rw [h2.range_eq hnl, if_neg hne, h2.start_eq, ← ulen_append]
  have h3 : src = (p ++ init) ++ ([last] ++ post) := by rw [h1, hsp]; simp
  rw [h3, trueLoc_append, hsp, ← List.append_assoc, locOf_snoc _ _ hlast]

theorem c12_newline_spelling_kind {kw : List (Str × TK)} {src : Str} {toks : List (Tok N)}
    (hlen : ulen src < 2 ^ 32) (h : lexAll kw src = .ok toks) :
    ∀ t ∈ toks, t.spelling = ['\n'] → t.kind = .newline := by
  intro t ht
  obtain ⟨p, post, _, h2⟩ := lexAll_tok_at hlen h ht
  exact h2.nl_kind

theorem c12_payloads {kw : List (Str × TK)} {src : Str} {toks : List (Tok N)}
    (hlen : ulen src < 2 ^ 32) (h : lexAll kw src = .ok toks)
    (hkw : ∀ e ∈ kw, e.2 ≠ .newline ∧ e.2 ≠ .number ∧ e.2 ≠ .stringLit ∧ e.2 ≠ .comment) :
    ∀ t ∈ toks,
      (t.kind = .stringLit → t.spelling = '"' :: (t.text ++ ['"'])) ∧
      (t.kind = .comment → t.spelling = '(' :: (t.text ++ [')'])) ∧
      (t.kind = .number → t.num = NumOps.parse t.spelling ∧ t.num.isSome = true) ∧
      (t.kind = .newline ↔ t.spelling = ['\n']) := by
  intro t ht
  obtain ⟨p, post, _, h2⟩ := lexAll_tok_at hlen h ht
  rcases h2.payload with ⟨w, hw⟩ | ⟨k1, k2, k3, k4⟩
  · have := hkw _ hw
    simp only at this
    refine ⟨fun hk => absurd hk this.2.2.1, fun hk => absurd hk this.2.2.2,
      fun hk => absurd hk this.2.1, fun hk => absurd hk this.1, h2.nl_kind⟩
  · exact ⟨k3, k4, k2, k1, h2.nl_kind⟩

/-! ### snapshots (`current_idx`, `current_line`, `current_loc` after each token) -/

theorem lexAll_snap_at {kw : List (Str × TK)} {src : Str} {toks : List (Tok N)}
    (hlen : ulen src < 2 ^ 32) (h : lexAll kw src = .ok toks) {t : Tok N} (ht : t ∈ toks) :
    ∃ p post, src = p ++ post ∧ t.after.idx = ulen p ∧
      LineOK t.after.line t.after.lineStart p ∧ t.start + ulen t.spelling ≤ ulen p := by
  obtain ⟨p, post, h1, h2⟩ := (lexAll_tiling hlen h).snap_at t ht
  exact ⟨p, post, by simpa using h1, h2⟩

theorem c01_snapshots {kw : List (Str × TK)} {src : Str} {toks : List (Tok N)}
    (hlen : ulen src < 2 ^ 32) (h : lexAll kw src = .ok toks) :
    ∀ t ∈ toks, t.after.lineStart ≤ t.after.idx ∧ t.after.idx ≤ ulen src ∧
      t.start + ulen t.spelling ≤ t.after.idx ∧ isCharBoundary src t.after.idx = true := by
  intro t ht
  obtain ⟨p, post, h1, h2, h3, h4⟩ := lexAll_snap_at hlen h ht
  refine ⟨by rw [h2]; exact h3.le, by rw [h2, h1]; simp, by rw [h2]; exact h4, ?_⟩
  rw [h2, h1]; exact isCharBoundary_append p post

theorem c12_snapshot_pos {kw : List (Str × TK)} {src : Str} {toks : List (Tok N)}
    (hlen : ulen src < 2 ^ 32) (hnl : CharOps.isWhitespace '\n' = true)
    (h : lexAll kw src = .ok toks) :
    ∀ t ∈ toks, (⟨t.after.line, t.after.idx - t.after.lineStart⟩ : Loc) =
      trueLoc src t.after.idx := by
  intro t ht
  obtain ⟨p, post, h1, h2, h3, _⟩ := lexAll_snap_at hlen h ht
  rw [h2, h1, trueLoc_append]
  exact h3.loc hnl

theorem c01_eofSnap {kw : List (Str × TK)} {src : Str} {toks : List (Tok N)}
    (hlen : ulen src < 2 ^ 32) (h : lexAll kw src = .ok toks) :
    (eofSnap src toks).idx = ulen src ∧ (eofSnap src toks).lineStart ≤ (eofSnap src toks).idx ∧
    (CharOps.isWhitespace '\n' = true →
      (⟨(eofSnap src toks).line, (eofSnap src toks).idx - (eofSnap src toks).lineStart⟩ : Loc) =
        trueLoc src (ulen src)) := by
  have hl := (lexAll_tiling hlen h).eof_line (l0 := 1) (ls0 := 0) [] src rfl (by simp)
    (by simpa using LineOK.init)
  rw [eofSnap_eq_finalLS]
  simp only [List.nil_append] at hl
  refine ⟨rfl, hl.le, fun hnl => ?_⟩
  have := hl.loc hnl
  rw [this]
  have := trueLoc_append src []
  simpa using this.symm

end
end Lexer
end Rrss
