/-
  Rrss.Interp — the tree-walking interpreter (mirrors src/exec/produce_val.rs,
  write_val.rs, exec_stmt.rs and the default traversals of src/analysis/visit.rs that
  `WriteVal` inherits).

  Recursion discipline: every function below is NON-recursive and takes `rec : Rec N`, the
  interpreter one fuel level down; all calls from one interpreter function to another go
  through `rec`. `interp : Nat → Rec N` ties the knot (`interp 0` answers `fuel`). Fuel is
  therefore the *depth* of evaluation (syntax nesting + call depth); loops iterate on the
  step budget `Env.steps`, which bounds the total work.
-/
import Rrss.Env
import Rrss.Poetic
namespace Rrss

/-- `ControlFlowState` -/
inductive Flag | normal | breaking | continuing | returning
  deriving DecidableEq, Repr, Inhabited

def Flag.skipRest : Flag → Bool
  | .normal => false
  | _ => true

/-- the mutable part of an `ExecStmt` -/
structure ExecSt (N : Type) where
  flag : Flag := .normal
  ret : Option (Val N) := none

/-- What a `WriteVal` closure does to the cell it is handed: the new value, and (for `roll`)
    the value taken out. -/
abbrev Writer (N : Type) := Val N → VRes N (Val N × Option (Val N))

/-- `WriteValOutput` plus the `back` slot that `visit_array_pop_expr`'s closure fills. -/
structure WOut (N : Type) where
  res : Except (RtErr N) Unit
  back : Option (Val N) := none

/-- The interpreter one fuel level down. -/
structure Rec (N : Type) where
  evalExpr : Expr N → M N (Val N)
  evalPrimary : Primary N → M N (Val N)
  writeExpr : Writer N → Expr N → M N (WOut N)
  writePrimary : Writer N → Primary N → M N (WOut N)
  execStmt : Stmt N → ExecSt N → M N (ExecSt N)

namespace Interp
variable [CharOps] {N : Type} [NumOps N]
open Env

def notWritable : WOut N := { res := .error .notWritable }

/-! ### binary operators (`binary_operator_fold`) -/

def ordIs (r : Option Ordering) (p : Ordering → Bool) : Bool :=
  match r with
  | some o => p o
  | none => false

/-- one application `a op b`, where `b` is evaluated only when `a` necessitates it -/
def applyOp (op : BinOp) (a : Val N) (b : M N (Val N)) : M N (Val N) := do
  match op with
  | .plus => let bv ← b; let cap := (← M.get).cap; M.liftV (Val.plus cap a bv)
  | .minus => let bv ← b; pure (Val.subtract a bv)
  | .multiply => let bv ← b; let cap := (← M.get).cap; M.liftV (Val.multiply cap a bv)
  | .divide => let bv ← b; pure (Val.divide a bv)
  | .and => if a.isTruthy then (do let bv ← b; pure (.bool bv.isTruthy)) else pure (.bool false)
  | .or => if a.isTruthy then pure (.bool true) else (do let bv ← b; pure (.bool bv.isTruthy))
  | .nor => if a.isTruthy then pure (.bool false) else (do let bv ← b; pure (.bool (!bv.isTruthy)))
  | .eq => let bv ← b; pure (.bool (Val.equals a bv))
  | .notEq => let bv ← b; pure (.bool (!Val.equals a bv))
  | .greater => let bv ← b; let r ← M.liftV (Val.compare a bv); pure (.bool (ordIs r (· == .gt)))
  | .greaterEq => let bv ← b; let r ← M.liftV (Val.compare a bv); pure (.bool (ordIs r (· != .lt)))
  | .less => let bv ← b; let r ← M.liftV (Val.compare a bv); pure (.bool (ordIs r (· == .lt)))
  | .lessEq => let bv ← b; let r ← M.liftV (Val.compare a bv); pure (.bool (ordIs r (· != .gt)))

/-- `rhs.try_fold(lhs, op)`: left to right over the list operand -/
def foldOp (rec : Rec N) (op : BinOp) : Val N → List (Expr N) → M N (Val N)
  | a, [] => pure a
  | a, e :: es => do
    let a' ← applyOp op a (rec.evalExpr e)
    foldOp rec op a' es

def evalArgs (rec : Rec N) : List (Expr N) → M N (List (Val N))
  | [] => pure []
  | e :: es => do
    let v ← rec.evalExpr e
    let vs ← evalArgs rec es
    pure (v :: vs)

/-! ### statements of a block -/

/-- `visit_block`: in order, stopping after a statement that leaves a pending flag -/
def execStmts (rec : Rec N) : List (Stmt N) → ExecSt N → M N (ExecSt N)
  | [], st => pure st
  | s :: ss, st => do
    let st' ← rec.execStmt s st
    if st'.flag.skipRest then pure st' else execStmts rec ss st'

/-! ### ProduceVal -/

def evalLit : Lit N → Val N
  | .mysterious => .undef
  | .bool b => .bool b
  | .null => .null
  | .num n => .num n
  | .str s => .str s

def evalIdent (i : Ident) : M N (Val N) :=
  match i with
  | .var n => lookupVar n
  | .pronoun => lastAccess

/-- `visit_function_call` -/
def callFunction (rec : Rec N) (name : VarName) (args : List (Expr N)) : M N (Val N) := do
  let env ← M.get
  let (params, body) ← M.liftE (lookupFuncIn name env.scopes)
  if params.length != args.length then
    M.fail (.wrongArgCount params.length args.length)
  else do
    let vals ← evalArgs rec args
    tick
    pushFunctionScope (params.zip vals)
    -- a fresh `ExecStmt`: pending break/continue of the callee never reach the caller
    let st ← execStmts rec body.stmts {}
    popScope
    pure (st.ret.getD .undef)

/-- `visit_array_pop_expr`: pop through `WriteVal`, then `back.unchecked_unwrap()` -/
def evalPop (rec : Rec N) (arr : Primary N) : M N (Val N) := do
  let w : Writer N := fun v => (Val.pop v).bind fun (x, rest) => .ok (rest, some x)
  let out ← rec.writePrimary w arr
  match out.res with
  | .error e => M.fail e
  | .ok () =>
    match out.back with
    | some v => pure v
    | none => M.crash .producePopUnwrap

def evalPrimary (rec : Rec N) : Primary N → M N (Val N)
  | .lit l _ => pure (evalLit l)
  | .ident i _ => evalIdent i
  | .sub arr idx => do
    let a ← rec.evalPrimary arr
    let k ← rec.evalPrimary idx
    M.liftV (Val.index a k)
  | .call name _ args => callFunction rec name args
  | .pop arr => evalPop rec arr

def evalExpr (rec : Rec N) : Expr N → M N (Val N)
  | .prim p => rec.evalPrimary p
  | .bin op lhs first rest => do
    let l ← rec.evalExpr lhs
    foldOp rec op l (first :: rest)
  | .un op e => do
    let v ← rec.evalExpr e
    match op with
    | .minus => M.liftV (Val.negate v)
    | .not => pure (.bool (!v.isTruthy))

/-- `ProduceVal::visit_assignment_lhs` (read of the target of a compound assignment) -/
def evalLhs (rec : Rec N) : Lhs N → M N (Val N)
  | .ident i _ => evalIdent i
  | .sub arr idx => do
    let a ← rec.evalPrimary arr
    let k ← rec.evalPrimary idx
    M.liftV (Val.index a k)

/-! ### WriteVal -/

/-- where the cell to be written lives -/
inductive Target
  | var (name : VarName)
  | pronoun

/-- `lookup_or_create!` / `last_access_mut`: the name under which the cell is stored and its
    current value. `lookup_var_mut` and `create_var` record the name as last accessed;
    the pronoun path does not. -/
def resolve (t : Target) : M N (VarName × Val N) := fun env =>
  match t with
  | .var name =>
    let env := { env with last := some name }
    match lookupVarIn name env.scopes with
    | .ok v => (.ok (name, v), env)
    | .error _ =>
      -- `create_var` in the innermost scope (repaired: its error is propagated)
      match env.scopes with
      | [] => (.crash .envNoScope, env)
      | s :: rest =>
        match slookup name.key s with
        | some _ => (.err (.duplicateSymbol name), env)
        | none => (.ok (name, .undef), { env with scopes := sset name.key (.var .undef) s :: rest })
  | .pronoun =>
    match env.last with
    | none => (.err .missingPronoun, env)
    | some name =>
      match lookupVarIn name env.scopes with
      | .ok v => (.ok (name, v), env)
      | .error e => (.err e, env)

/-- Resolve the base variable, walk `keys` inwards with `index_or_insert`, run the closure on
    the cell, store the result. Every error is captured in the `WOut` (the caller decides
    whether it is fatal); mutations made before the error stay, as with `&mut`. -/
def writeCell (w : Writer N) (t : Target) (keys : List (Val N)) : M N (WOut N) := fun env =>
  match resolve t env with
  | (.ok (name, cur), env) =>
    let (newVal, status) := Val.updateAt env.cap w keys cur
    let env' := { env with scopes := setVarIn name newVal env.scopes }
    match status with
    | .ok back => (.ok { res := .ok (), back := back }, env')
    | .err e => (.ok { res := .error (.val e) }, env')
    | .crash s => (.crash s, env')
    | .fuel => (.fuel, env')
    | .resource => (.resource, env')
  | (.err e, env) => (.ok { res := .error e }, env)
  | (.crash s, env) => (.crash s, env)
  | (.fuel, env) => (.fuel, env)
  | (.resource, env) => (.resource, env)

/-- `subscript_val`: evaluate one subscript with `ProduceVal`; an error is captured -/
def subscriptVal (rec : Rec N) (idx : Primary N) : M N (Except (RtErr N) (Val N)) := fun env =>
  match rec.evalPrimary idx env with
  | (.ok v, e) => (.ok (.ok v), e)
  | (.err er, e) => (.ok (.error er), e)
  | (.crash s, e) => (.crash s, e)
  | (.fuel, e) => (.fuel, e)
  | (.resource, e) => (.resource, e)

/-- `WriteVal::visit_array_subscript`: subscripts are evaluated outermost first while drilling
    down to the base identifier; `keys` accumulates them innermost first. Structural on the
    array operand. -/
def writeSubscript (rec : Rec N) (w : Writer N) : Primary N → List (Val N) → M N (WOut N)
  | .ident (.var name) _, keys => writeCell w (.var name) keys
  | .ident .pronoun _, keys => writeCell w .pronoun keys
  | .sub arr idx, keys => do
    match ← subscriptVal rec idx with
    | .error e => pure { res := .error e }
    | .ok k => writeSubscript rec w arr (k :: keys)
  | _, _ => pure notWritable

/-- `WriteVal::visit_primary_expression`: only identifiers, pronouns and subscripts (and what a
    `roll` pops from) denote places. Literals are leaves (⇒ `Default` = not writable); calls
    are not writable and (repaired code) their operands are not visited. -/
def writePrimary (rec : Rec N) (w : Writer N) : Primary N → M N (WOut N)
  | .lit _ _ => pure notWritable
  | .ident (.var name) _ => writeCell w (.var name) []
  | .ident .pronoun _ => writeCell w .pronoun []
  | .sub arr idx => do
    match ← subscriptVal rec idx with
    | .error e => pure { res := .error e }
    | .ok k => writeSubscript rec w arr [k]
  | .call _ _ _ => pure notWritable
  | .pop arr => rec.writePrimary w arr                        -- default `visit_array_pop_expr`

/-- `WriteVal::visit_expression`: binary and unary expressions are not writable and (repaired
    code) their operands are neither evaluated nor written through. -/
def writeExpr (rec : Rec N) (w : Writer N) : Expr N → M N (WOut N)
  | .prim p => rec.writePrimary w p
  | .bin _ _ _ _ => pure notWritable
  | .un _ _ => pure notWritable

def writeIdent (w : Writer N) (i : Ident) : M N (WOut N) :=
  match i with
  | .var name => writeCell w (.var name) []
  | .pronoun => writeCell w .pronoun []

/-- `WriteVal::visit_assignment_lhs` -/
def writeLhs (rec : Rec N) (w : Writer N) : Lhs N → M N (WOut N)
  | .ident i _ => writeIdent w i
  | .sub arr idx => do
    match ← subscriptVal rec idx with
    | .error e => pure { res := .error e }
    | .ok k => writeSubscript rec w arr [k]

/-- `.unwrap().0?` : the captured error becomes fatal -/
def fatal (o : M N (WOut N)) : M N Unit := do
  match (← o).res with
  | .ok () => pure ()
  | .error e => M.fail e

/-- `ExecStmt::writer(val)`: `*v = val.clone()` -/
def assignW (v : Val N) : Writer N := fun _ => .ok (v, none)

def liftW (f : Val N → VRes N (Val N)) : Writer N := fun v => (f v).map fun v' => (v', none)

/-! ### ExecStmt -/

def mutate (op : MutOp) (v : Val N) (param : Option (Val N)) : VRes N (Val N) :=
  match op with
  | .cut => Val.split v param
  | .join => Val.join v param
  | .cast => Val.cast v param

def roundW (d : RoundDir) : Val N → VRes N (Val N) :=
  match d with
  | .up => Val.roundUp
  | .down => Val.roundDown
  | .nearest => Val.roundNearest

/-- `visit_loop`: iterates on the step budget (each round costs one step). -/
def loopGo (rec : Rec N) (invert : Bool) (cond : Expr N) (body : List (Stmt N)) :
    Nat → ExecSt N → M N (ExecSt N)
  | 0, _ => M.outOfResource
  | n + 1, st => do
    let c ← rec.evalExpr cond
    if invert != c.isTruthy then do
      tick
      pushScope
      let st' ← execStmts rec body st
      popScope
      match st'.flag with
      | .normal => loopGo rec invert cond body n st'
      | .continuing => loopGo rec invert cond body n { st' with flag := .normal }
      | .breaking => pure { st' with flag := .normal }
      | .returning => pure st'
    else pure st

def execLoop (rec : Rec N) (invert : Bool) (cond : Expr N) (body : Block N) (st : ExecSt N) :
    M N (ExecSt N) := do
  let env ← M.get
  loopGo rec invert cond body.stmts (env.steps + 1) st

def evalOpt (rec : Rec N) : Option (Expr N) → M N (Option (Val N))
  | none => pure none
  | some e => do let v ← rec.evalExpr e; pure (some v)

def execStmt (rec : Rec N) (s : Stmt N) (st : ExecSt N) : M N (ExecSt N) := do
  tick
  match s with
  | .assign dest op value =>
    let newVal ← (match op with
      | some o => do
        let l ← evalLhs rec dest
        foldOp rec o l value.toList
      | none =>
        if !value.rest.isEmpty then M.fail .listInvalid
        else rec.evalExpr value.first)
    fatal (writeLhs rec (assignW newVal) dest)
    pure st
  | .poeticNum dest rhs =>
    let v ← (match rhs with
      | .expr e => rec.evalExpr e
      | .lit elems =>
        match (Poetic.computeValue elems : Outcome Unit N) with
        | .ok n => pure (.num n)
        | .crash site => M.crash site
        | _ => M.crash .poeticLeadingSuffix)
    fatal (writeLhs rec (assignW v) dest)
    pure st
  | .poeticStr dest s =>
    fatal (writeLhs rec (assignW (.str s)) dest)
    pure st
  | .ifS cond thenB elseB =>
    let c ← rec.evalExpr cond
    pushScope
    let st' ← (if c.isTruthy then execStmts rec thenB.stmts st
               else match elseB with
                    | some b => execStmts rec b.stmts st
                    | none => pure st)
    popScope
    pure st'
  | .whileS cond body => execLoop rec false cond body st
  | .untilS cond body => execLoop rec true cond body st
  | .inc dest _ amount =>
    fatal (writeIdent (liftW fun v => Val.inc v amount) dest)
    pure st
  | .dec dest _ amount =>
    fatal (writeIdent (liftW fun v => Val.inc v (-amount)) dest)
    pure st
  | .input dest _ =>
    let line ← inputLine
    match dest with
    | some d => fatal (writeLhs rec (assignW (.str line)) d); pure st
    | none => pure st
  | .output value =>
    let v ← rec.evalExpr value
    let text ← M.liftV v.toOutput
    output text
    pure st
  | .mutation op operand dest param =>
    let p ← evalOpt rec param
    match dest with
    | some d =>
      let v ← rec.evalPrimary operand
      let v' ← M.liftV (mutate op v p)
      fatal (writeLhs rec (assignW v') d)
      pure st
    | none =>
      fatal (rec.writePrimary (liftW fun v => mutate op v p) operand)
      pure st
  | .rounding dir operand =>
    fatal (rec.writeExpr (liftW (roundW dir)) operand)
    pure st
  | .continue_ _ =>
    M.assert .execFlagAssert (st.flag == .normal)
    pure { st with flag := .continuing }
  | .break_ _ =>
    M.assert .execFlagAssert (st.flag == .normal)
    pure { st with flag := .breaking }
  | .push arr value =>
    let vals ← (match value with
      | some (.list l) => evalArgs rec l.toList
      | some (.lit elems) =>
        match (Poetic.computeValue elems : Outcome Unit N) with
        | .ok n => pure [.num n]
        | .crash site => M.crash site
        | _ => M.crash .poeticLeadingSuffix
      | none => pure [])
    fatal (rec.writePrimary (liftW fun v => Val.push v vals) arr)
    pure st
  | .pop arr dest =>
    let back ← evalPop rec arr
    match dest with
    | some d => fatal (writeLhs rec (assignW back) d); pure st
    | none => pure st
  | .ret value =>
    M.assert .execReturnAssert st.ret.isNone
    let v ← rec.evalExpr value
    M.assert .execFlagAssert (st.flag == .normal)
    pure { flag := .returning, ret := some v }
  | .func name _ params body =>
    createFunc name (params.map (·.1)) body
    pure st
  | .call name _ args =>
    let _ ← callFunction rec name args
    pure st

/-- fuel 0: every entry point answers `fuel` -/
def bottom : Rec N where
  evalExpr _ := M.outOfFuel
  evalPrimary _ := M.outOfFuel
  writeExpr _ _ := M.outOfFuel
  writePrimary _ _ := M.outOfFuel
  execStmt _ _ := M.outOfFuel

def mkRec (rec : Rec N) : Rec N where
  evalExpr := evalExpr rec
  evalPrimary := evalPrimary rec
  writeExpr := writeExpr rec
  writePrimary := writePrimary rec
  execStmt := execStmt rec

/-- the interpreter with `fuel` levels of depth -/
def interp : Nat → Rec N
  | 0 => bottom
  | n + 1 => mkRec (interp n)

/-- `visit_program` (repaired): blocks in order; a pending flag after a top-level block ends
    the program. -/
def execBlocks (rec : Rec N) : List (Block N) → ExecSt N → M N (ExecSt N)
  | [], st => pure st
  | b :: bs, st => do
    let st' ← execStmts rec b.stmts st
    if st'.flag.skipRest then pure st' else execBlocks rec bs st'

/-- `exec_using` -/
def execProgram (fuel : Nat) (p : Program N) : M N Unit := do
  let _ ← execBlocks (interp fuel) p.code {}
  pure ()

end Interp
end Rrss
