/-
  Rrss.Chars — Unicode classification used by the lexer and symbol tables, as a parameter.
  The driver instance is generated from the Rust std the code is compiled with
  (Rrss/Generated/Unicode.lean); proofs use only `CharLaws`.
-/
import Rrss.Basic
namespace Rrss

class CharOps where
  isAlphabetic : Char → Bool
  isNumeric : Char → Bool
  isWhitespace : Char → Bool
  isUppercase : Char → Bool
  isLowercase : Char → Bool
  /-- `char::to_lowercase` (1–3 chars) -/
  toLower : Char → Str

namespace CharOps
variable [CharOps]

/-- `str::to_lowercase`, per character (final-sigma rule ignored; see DESIGN §5). -/
def lower (s : Str) : Str := s.flatMap toLower

end CharOps

/-- `char::is_ascii_punctuation` -/
def isAsciiPunct (c : Char) : Bool :=
  let n := c.toNat
  (33 ≤ n && n ≤ 47) || (58 ≤ n && n ≤ 64) || (91 ≤ n && n ≤ 96) || (123 ≤ n && n ≤ 126)

/-- `char::is_ascii_alphanumeric` -/
def isAsciiAlnum (c : Char) : Bool :=
  let n := c.toNat
  (48 ≤ n && n ≤ 57) || (65 ≤ n && n ≤ 90) || (97 ≤ n && n ≤ 122)

def isAsciiDigit (c : Char) : Bool := 48 ≤ c.toNat && c.toNat ≤ 57

end Rrss
