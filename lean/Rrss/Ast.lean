/-
  Rrss.Ast — syntax trees (mirrors src/frontend/ast.rs). `N` is the number type.
  `WithRange<T>` is flattened into a payload and a `Range` field.
-/
import Rrss.Basic
namespace Rrss

inductive VarName
  | simple (s : Str)
  | common (pre : Str) (word : Str)
  | proper (ws : List Str)
  deriving DecidableEq, Repr, Inhabited

inductive Ident
  | var (v : VarName)
  | pronoun
  deriving DecidableEq, Repr, Inhabited

inductive UnOp | minus | not
  deriving DecidableEq, Repr, Inhabited

inductive BinOp
  | plus | minus | multiply | divide | and | or | nor | eq | notEq | greater | greaterEq | less | lessEq
  deriving DecidableEq, Repr, Inhabited

inductive Lit (N : Type)
  | mysterious
  | bool (b : Bool)
  | null
  | num (n : N)
  | str (s : Str)
  deriving Repr, Inhabited

mutual
inductive Primary (N : Type)
  | lit (l : Lit N) (r : Range)
  | ident (i : Ident) (r : Range)
  | sub (arr : Primary N) (idx : Primary N)                       -- ArraySubscript
  | call (name : VarName) (r : Range) (args : List (Expr N))      -- FunctionCall
  | pop (arr : Primary N)                                         -- ArrayPopExpr
inductive Expr (N : Type)
  | prim (p : Primary N)
  | bin (op : BinOp) (lhs : Expr N) (first : Expr N) (rest : List (Expr N))   -- rhs: ExpressionList
  | un (op : UnOp) (operand : Expr N)
end

instance {N} : Inhabited (Primary N) := ⟨.ident .pronoun default⟩
instance {N} : Inhabited (Expr N) := ⟨.prim default⟩

/-- `ExpressionList` -/
structure ExprList (N : Type) where
  first : Expr N
  rest : List (Expr N)

def ExprList.toList {N} (l : ExprList N) : List (Expr N) := l.first :: l.rest

/-- `AssignmentLHS` -/
inductive Lhs (N : Type)
  | ident (i : Ident) (r : Range)
  | sub (arr : Primary N) (idx : Primary N)

inductive PoeticElem
  | word (s : Str)
  | suffix (s : Str)
  | dot
  deriving DecidableEq, Repr, Inhabited

/-- `PoeticNumberAssignmentRHS` -/
inductive PoeticRhs (N : Type)
  | expr (e : Expr N)
  | lit (elems : List PoeticElem)

/-- `ArrayPushRHS` -/
inductive PushRhs (N : Type)
  | list (l : ExprList N)
  | lit (elems : List PoeticElem)

inductive MutOp | cut | join | cast
  deriving DecidableEq, Repr, Inhabited

inductive RoundDir | up | down | nearest
  deriving DecidableEq, Repr, Inhabited

mutual
inductive Stmt (N : Type)
  | assign (dest : Lhs N) (op : Option BinOp) (value : ExprList N)
  | poeticNum (dest : Lhs N) (rhs : PoeticRhs N)
  | poeticStr (dest : Lhs N) (rhs : Str)
  | ifS (cond : Expr N) (thenB : Block N) (elseB : Option (Block N))
  | whileS (cond : Expr N) (body : Block N)
  | untilS (cond : Expr N) (body : Block N)
  | inc (dest : Ident) (r : Range) (amount : Int)
  | dec (dest : Ident) (r : Range) (amount : Int)
  | input (dest : Option (Lhs N)) (loc : Loc)        -- `InputDest::None(loc)`: loc meaningful iff dest = none
  | output (value : Expr N)
  | mutation (op : MutOp) (operand : Primary N) (dest : Option (Lhs N)) (param : Option (Expr N))
  | rounding (dir : RoundDir) (operand : Expr N)
  | continue_ (r : Range)
  | break_ (r : Range)
  | push (arr : Primary N) (value : Option (PushRhs N))
  | pop (arr : Primary N) (dest : Option (Lhs N))
  | ret (value : Expr N)
  | func (name : VarName) (r : Range) (params : List (VarName × Range)) (body : Block N)
  | call (name : VarName) (r : Range) (args : List (Expr N))
/-- `Block::new(loc, statements)`: `Empty(loc)` iff `ss = []` (then `loc` is meaningful). -/
inductive Block (N : Type)
  | mk (loc : Loc) (ss : List (Stmt N))
end

def Block.stmts {N} : Block N → List (Stmt N) | .mk _ ss => ss
def Block.loc {N} : Block N → Loc | .mk l _ => l
def Block.isEmpty {N} : Block N → Bool | .mk _ ss => ss.isEmpty

instance {N} : Inhabited (Block N) := ⟨.mk default []⟩
instance {N} : Inhabited (Stmt N) := ⟨.continue_ default⟩

structure Program (N : Type) where
  code : List (Block N)

end Rrss
