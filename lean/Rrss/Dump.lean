/-
  Rrss.Dump — canonical dumps of tokens and syntax trees, byte-exact per PROTOCOL.md
  (sections "lex" and "parse"). Line protocol only; never used in theorems.
-/
import Rrss.Basic
import Rrss.Num
import Rrss.Token
import Rrss.Ast
import Rrss.Lexer
import Rrss.Poetic
import Rrss.Parser
import Rrss.ParseErrorDisplay
namespace Rrss
namespace Dump

open Parser (natStr)

def hexDigit (n : Nat) : Char :=
  if n < 10 then Char.ofNat (48 + n) else Char.ofNat (87 + n)

def hexByte (b : UInt8) : Str := [hexDigit (b.toNat / 16), hexDigit (b.toNat % 16)]

/-- lowercase hex of the UTF-8 bytes -/
def hexStr (s : Str) : Str := s.flatMap fun c => (String.utf8EncodeChar c).flatMap hexByte

/-- text field: `x` + HEX -/
def xhex (s : Str) : Str := 'x' :: hexStr s

def spaced (items : List Str) : Str := items.flatMap fun i => ' ' :: i

/-- `(head item item …)` -/
def sexp (head : Str) (items : List Str) : Str := '(' :: head ++ spaced items ++ [')']

def intStr (i : Int) : Str :=
  match i with
  | .ofNat n => natStr n
  | .negSucc n => '-' :: natStr (n + 1)

def loc (l : Loc) : Str := '@' :: natStr l.line ++ ':' :: natStr l.col

def range (r : Range) : Str :=
  '@' :: natStr r.start.line ++ ':' :: natStr r.start.col ++ '-' :: natStr r.stop.line ++
    ':' :: natStr r.stop.col

def lexErrName : LexErr → Str
  | .identNonAlpha => str% "identNonAlpha"
  | .underscore => str% "underscore"
  | .invalidToken => str% "invalidToken"
  | .unterminatedComment => str% "unterminatedComment"
  | .unterminatedString => str% "unterminatedString"

def siteName (s : Site) : Str :=
  ((reprStr s).splitOn ".").getLast!.toList

section
variable {N : Type} [NumBits N]

/-! ### tokens -/

def payload (t : Tok N) : Str :=
  match t.kind with
  | .number => match t.num with
    | some n => NumBits.bitsHex n
    | none => str% "-"
  | .stringLit => xhex t.text
  | .comment => xhex t.text
  | .error => match t.lexErr with
    | some e => lexErrName e
    | none => str% "-"
  | _ => str% "-"

/-- `KIND,START,LEN,L1,C1,L2,C2,PAYLOAD` -/
def token (t : Tok N) : Str :=
  t.kind.name ++ ',' :: natStr t.start ++ ',' :: natStr (ulen t.spelling) ++
    ',' :: natStr t.range.start.line ++ ',' :: natStr t.range.start.col ++
    ',' :: natStr t.range.stop.line ++ ',' :: natStr t.range.stop.col ++ ',' :: payload t

def joinSemi : List Str → Str
  | [] => []
  | [x] => x
  | x :: y :: r => x ++ ';' :: joinSemi (y :: r)

/-- `ok N tok;tok;…` -/
def tokens (ts : List (Tok N)) : Str :=
  str% "ok " ++ natStr ts.length ++ ' ' :: joinSemi (ts.map token)

def outcomeTail {ε α : Type} : Outcome ε α → Str
  | .crash s => str% "crash " ++ siteName s
  | .fuel => str% "fuel"
  | .resource => str% "resource"
  | _ => []

def lexResponse (r : Outcome Unit (List (Tok N))) : Str :=
  match r with
  | .ok ts => tokens ts
  | .err _ => str% "resource"
  | o => outcomeTail o

/-! ### syntax trees -/

def varName : VarName → Str
  | .simple s => sexp (str% "simple") [xhex s]
  | .common p w => sexp (str% "common") [xhex p, xhex w]
  | .proper ws => sexp (str% "proper") (ws.map xhex)

def ident : Ident → Str
  | .var v => varName v
  | .pronoun => str% "pronoun"

def binOp : BinOp → Str
  | .plus => str% "plus" | .minus => str% "minus" | .multiply => str% "multiply"
  | .divide => str% "divide" | .and => str% "and" | .or => str% "or" | .nor => str% "nor"
  | .eq => str% "eq" | .notEq => str% "noteq" | .greater => str% "greater"
  | .greaterEq => str% "greatereq" | .less => str% "less" | .lessEq => str% "lesseq"

def unOp : UnOp → Str
  | .minus => str% "minus" | .not => str% "not"

def lit : Lit N → Str
  | .mysterious => str% "mysterious"
  | .null => str% "null"
  | .bool true => str% "true"
  | .bool false => str% "false"
  | .num n => sexp (str% "num") [NumBits.bitsHex n]
  | .str s => sexp (str% "str") [xhex s]

mutual
def primary : Primary N → Str
  | .lit l r => sexp (str% "lit") [lit l, range r]
  | .ident i r => sexp (str% "id") [ident i, range r]
  | .sub a i => sexp (str% "sub") [primary a, primary i]
  | .call n r args => sexp (str% "call") [varName n, range r, sexp (str% "args") (exprs args)]
  | .pop a => sexp (str% "popx") [primary a]
def expr : Expr N → Str
  | .prim p => primary p
  | .bin op l f r => sexp (str% "bin") [binOp op, expr l, sexp (str% "list") (expr f :: exprs r)]
  | .un op e => sexp (str% "un") [unOp op, expr e]
def exprs : List (Expr N) → List Str
  | [] => []
  | e :: es => expr e :: exprs es
end

def exprList (l : ExprList N) : Str := sexp (str% "list") (expr l.first :: exprs l.rest)

def lhs : Lhs N → Str
  | .ident i r => sexp (str% "lid") [ident i, range r]
  | .sub a i => sexp (str% "lsub") [primary a, primary i]

def optLhs : Option (Lhs N) → Str
  | some l => lhs l
  | none => str% "-"

def poeticElem : PoeticElem → Str
  | .word s => sexp (str% "w") [xhex s]
  | .suffix s => sexp (str% "s") [xhex s]
  | .dot => str% "dot"

variable [NumOps N]

def plit (elems : List PoeticElem) : Str :=
  let v : Str := match (Poetic.computeValue elems : Outcome Unit N) with
    | .ok n => NumBits.bitsHex n
    | _ => str% "crash"
  sexp (str% "plit") (v :: elems.map poeticElem)

def mutOp : MutOp → Str
  | .cut => str% "cut" | .join => str% "join" | .cast => str% "cast"

def roundDir : RoundDir → Str
  | .up => str% "up" | .down => str% "down" | .nearest => str% "nearest"

def param (p : VarName × Range) : Str := '(' :: varName p.1 ++ ' ' :: range p.2 ++ [')']

mutual
def stmt : Stmt N → Str
  | .assign d op v =>
    sexp (str% "assign") [lhs d, (match op with | some o => binOp o | none => str% "-"), exprList v]
  | .poeticNum d (.expr e) => sexp (str% "pnum") [lhs d, sexp (str% "pexpr") [expr e]]
  | .poeticNum d (.lit l) => sexp (str% "pnum") [lhs d, plit (N := N) l]
  | .poeticStr d s => sexp (str% "pstr") [lhs d, xhex s]
  | .ifS c t none => sexp (str% "if") [expr c, block t, str% "-"]
  | .ifS c t (some e) => sexp (str% "if") [expr c, block t, block e]
  | .whileS c b => sexp (str% "while") [expr c, block b]
  | .untilS c b => sexp (str% "until") [expr c, block b]
  | .inc d r n => sexp (str% "inc") [ident d, range r, intStr n]
  | .dec d r n => sexp (str% "dec") [ident d, range r, intStr n]
  | .input (some d) _ => sexp (str% "input") [lhs d]
  | .input none l => sexp (str% "input") [loc l]
  | .output v => sexp (str% "output") [expr v]
  | .mutation op operand d p =>
    sexp (str% "mut") [mutOp op, primary operand, optLhs d,
      (match p with | some e => expr e | none => str% "-")]
  | .rounding d e => sexp (str% "round") [roundDir d, expr e]
  | .continue_ r => sexp (str% "continue") [range r]
  | .break_ r => sexp (str% "break") [range r]
  | .push a none => sexp (str% "push") [primary a, str% "-"]
  | .push a (some (.list l)) => sexp (str% "push") [primary a, exprList l]
  | .push a (some (.lit l)) => sexp (str% "push") [primary a, plit (N := N) l]
  | .pop a d => sexp (str% "pop") [primary a, optLhs d]
  | .ret v => sexp (str% "return") [expr v]
  | .func n r ps b =>
    sexp (str% "func") [varName n, range r, sexp (str% "params") (ps.map param), block b]
  | .call n r args => sexp (str% "callstmt") [varName n, range r, sexp (str% "args") (exprs args)]
def block : Block N → Str
  | .mk l [] => sexp (str% "block") [loc l]
  | .mk _ (s :: ss) => sexp (str% "block") (stmt s :: stmts ss)
def stmts : List (Stmt N) → List Str
  | [] => []
  | s :: ss => stmt s :: stmts ss
end

def blocks : List (Block N) → List Str
  | [] => []
  | b :: bs => block b :: blocks bs

def program (p : Program N) : Str := sexp (str% "prog") (blocks p.code)

/-- `ok SEXPR` | `err CODE LINE xHEX` | `crash site` | `fuel` | `resource` -/
def parseResponse (r : Outcome (Parser.ParseErr N) (Program N)) : Str :=
  match r with
  | .ok p => str% "ok " ++ program p
  | .err e =>
    let msg : Str := match Parser.renderParseError e with
      | .ok s => xhex s
      | _ => str% "crash"
    str% "err " ++ e.codeName ++ ' ' :: natStr e.line ++ ' ' :: msg
  | o => outcomeTail o

end

end Dump
end Rrss
