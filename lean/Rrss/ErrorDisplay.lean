/-
  Rrss.ErrorDisplay — `Display` of runtime errors (mirrors src/exec/display.rs) and the
  class names used by the line protocol.
-/
import Rrss.Env
import Rrss.Lint
namespace Rrss

def natToStr (n : Nat) : Str := Nat.toDigits 10 n

namespace ValErr
variable {N : Type} [NumOps N]

def className : ValErr N → Str
  | .notIndexable _ => str% "NotIndexable"
  | .invalidKey _ => str% "InvalidKey"
  | .indexNotAssignable _ _ => str% "IndexNotAssignable"
  | .invalidOp _ _ => str% "InvalidOperationForType"
  | .invalidComparison _ _ => str% "InvalidComparison"
  | .invalidSplitDelim _ => str% "InvalidSplitDelimiter"
  | .invalidJoinDelim _ => str% "InvalidJoinDelimiter"
  | .invalidJoinElem _ => str% "InvalidArrayElementForJoin"
  | .parseNumFailed _ => str% "ParsingStringAsNumberFailed"
  | .invalidRadix _ => str% "InvalidStringToIntegerRadix"
  | .numToCharFailed _ => str% "ConvertingNumberToCharacterFailed"
  | .unexpectedCastParam _ => str% "UnexpectedParameterToNumberToCharacterCast"

def render : ValErr N → Str
  | .notIndexable v => str% "value " ++ v.display ++ str% " not indexable"
  | .invalidKey v => str% "invalid key " ++ v.display
  | .indexNotAssignable k v => str% "index " ++ k.display ++ str% " not assignable for " ++ v.display
  | .invalidOp op v => str% "cannot " ++ op ++ str% " value " ++ v.display
  | .invalidComparison a b => str% "invalid comparison between " ++ a.display ++ str% " and " ++ b.display
  | .invalidSplitDelim v => str% "invalid split delimiter " ++ v.display
  | .invalidJoinDelim v => str% "invalid join delimiter " ++ v.display
  | .invalidJoinElem v => str% "invalid array element for join " ++ v.display
  | .parseNumFailed s => str% "parsing " ++ s ++ str% " as number failed"
  | .invalidRadix v => str% "invalid string-to-integer radix " ++ v.display
  | .numToCharFailed n => str% "converting " ++ NumOps.fmt n ++ str% " to character failed"
  | .unexpectedCastParam v =>
    str% "converting number to character shouldn't take a parameter, found " ++ v.display

end ValErr

namespace RtErr
variable {N : Type} [NumOps N]

def className : RtErr N → Str
  | .nameNotFound _ => str% "NameNotFound"
  | .expectedVarFoundFunc _ => str% "ExpectedVarFoundFunc"
  | .expectedFuncFoundVar _ => str% "ExpectedFuncFoundVar"
  | .duplicateSymbol _ => str% "DuplicateSymbol"
  | .duplicateArgName _ => str% "DuplicateFunctionArgName"
  | .missingPronoun => str% "MissingPronounReferent"
  | .io _ => str% "IOError"
  | .val e => e.className
  | .notWritable => str% "ValueNotWritable"
  | .listInvalid => str% "NonCompoundAssignmentExpressionListInvalid"
  | .wrongArgCount _ _ => str% "WrongNumberOfFunctionArguments"

def render : RtErr N → Str
  | .nameNotFound n => str% "the name '" ++ n.render ++ str% "' could not be found"
  | .expectedVarFoundFunc n => str% "expected '" ++ n.render ++ str% "' to be a variable, found function"
  | .expectedFuncFoundVar n => str% "expected '" ++ n.render ++ str% "' to be a function, found variable"
  | .duplicateSymbol n => str% "duplicate symbol '" ++ n.render ++ str% "'"
  | .duplicateArgName n => str% "duplicate function argument name '" ++ n.render ++ str% "'"
  | .missingPronoun => str% "pronoun doesn't refer to anything yet"
  | .io s => s
  | .val e => e.render
  | .notWritable => str% "value not writable"
  | .listInvalid => str% "expression list is invalid when not doing a compound assignment"
  | .wrongArgCount e a =>
    str% "wrong number of function arguments; expected " ++ natToStr e ++ str% ", got " ++ natToStr a

end RtErr
end Rrss
