/-
  Rrss.ParseErrorDisplay — `Display for ParseError` (src/frontend/parser/display.rs).
-/
import Rrss.Basic
import Rrss.Token
import Rrss.Ast
import Rrss.Parser
namespace Rrss

/-- the Rust variant name of a `TokenType` (what `Debug` prints for payload-free kinds) -/
def TK.name : TK → Str
  | .word => str% "Word"
  | .stringLit => str% "StringLiteral"
  | .number => str% "Number"
  | .mysterious => str% "Mysterious"
  | .null => str% "Null"
  | .true_ => str% "True"
  | .false_ => str% "False"
  | .empty => str% "Empty"
  | .commonPrefix => str% "CommonVariablePrefix"
  | .pronoun => str% "Pronoun"
  | .at => str% "At"
  | .like => str% "Like"
  | .plus => str% "Plus"
  | .minus => str% "Minus"
  | .multiply => str% "Multiply"
  | .divide => str% "Divide"
  | .is => str% "Is"
  | .isnt => str% "Isnt"
  | .says => str% "Says"
  | .put => str% "Put"
  | .into => str% "Into"
  | .let_ => str% "Let"
  | .be => str% "Be"
  | .with_ => str% "With"
  | .not => str% "Not"
  | .apostropheS => str% "ApostropheS"
  | .apostropheRE => str% "ApostropheRE"
  | .and => str% "And"
  | .or => str% "Or"
  | .nor => str% "Nor"
  | .as => str% "As"
  | .big => str% "Big"
  | .bigger => str% "Bigger"
  | .small => str% "Small"
  | .smaller => str% "Smaller"
  | .than => str% "Than"
  | .greater => str% "Greater"
  | .greaterEq => str% "GreaterEq"
  | .less => str% "Less"
  | .lessEq => str% "LessEq"
  | .if_ => str% "If"
  | .else_ => str% "Else"
  | .while_ => str% "While"
  | .until_ => str% "Until"
  | .continue_ => str% "Continue"
  | .break_ => str% "Break"
  | .take => str% "Take"
  | .top => str% "Top"
  | .say => str% "Say"
  | .sayAlias => str% "SayAlias"
  | .listen => str% "Listen"
  | .to => str% "To"
  | .build => str% "Build"
  | .knock => str% "Knock"
  | .up => str% "Up"
  | .down => str% "Down"
  | .cut => str% "Cut"
  | .join => str% "Join"
  | .cast => str% "Cast"
  | .turn => str% "Turn"
  | .round => str% "Round"
  | .rock => str% "Rock"
  | .roll => str% "Roll"
  | .takes => str% "Takes"
  | .taking => str% "Taking"
  | .return_ => str% "Return"
  | .back => str% "Back"
  | .ampersand => str% "Ampersand"
  | .apostropheNApostrophe => str% "ApostropheNApostrophe"
  | .comma => str% "Comma"
  | .dot => str% "Dot"
  | .newline => str% "Newline"
  | .comment => str% "Comment"
  | .error => str% "Error"

/-- ASCII lower-casing (the variant names are ASCII) -/
def asciiLower (s : Str) : Str := s.map Char.toLower

/-- `Display for TokenType`: the lower-cased `Debug` name except for `'s 're 'n'`.
    For the payload kinds (`StringLiteral`, `Number`, `Comment`, `Error`) `Debug` would also
    print the payload (`number(1.5)`, `stringliteral("x")`, `error(errormessage("…"))`); these
    never occur in `ExpectedToken`/`ExpectedOneOfTokens` as the parser stands, so only the bare
    lower-case name is rendered for them. -/
def TK.display : TK → Str
  | .apostropheS => str% "'s"
  | .apostropheRE => str% "'re"
  | .apostropheNApostrophe => str% "'n'"
  | k => asciiLower k.name

namespace Parser
variable {N : Type}

/-- decimal rendering of a `u32` -/
def natStr (n : Nat) : Str := (Nat.repr n).toList

/-- the line `Display for ParseErrorLocation` prints -/
def ErrLoc.lineNo : ErrLoc N → Nat
  | .token t => t.range.start.line
  | .line n => n

/-- the line of a parse error -/
def ParseErr.line (e : ParseErr N) : Nat := e.loc.lineNo

/-- variant name of `ParseErrorCode` -/
def PCode.name : PCode N → Str
  | .generic _ => str% "Generic"
  | .missingIDAfterCommonPrefix _ => str% "MissingIDAfterCommonPrefix"
  | .mutationOperandMustBeIdentifier _ => str% "MutationOperandMustBeIdentifier"
  | .expectedPrimaryExpression => str% "ExpectedPrimaryExpression"
  | .expectedIdentifier => str% "ExpectedIdentifier"
  | .expectedText _ => str% "ExpectedText"
  | .expectedToken _ => str% "ExpectedToken"
  | .expectedOneOfTokens _ => str% "ExpectedOneOfTokens"
  | .expectedPoeticNumberLiteral => str% "ExpectedPoeticNumberLiteral"
  | .expectedSpaceAfterSays _ => str% "ExpectedSpaceAfterSays"
  | .unexpectedToken => str% "UnexpectedToken"
  | .unexpectedEndOfTokens => str% "UnexpectedEndOfTokens"
  | .poeticLiteralEndingWithHyphen => str% "PoeticLiteralEndingWithHyphen"
  | .poeticLiteralStartingWithHyphen => str% "PoeticLiteralStartingWithHyphen"

def ParseErr.codeName (e : ParseErr N) : Str := e.code.name

/-- `` `x` `` -/
def tick (s : Str) : Str := '`' :: s ++ ['`']

/-- `write_list` for three or more items: all but the last as `` `x`, `` then `` or `last` `` -/
def writeListMany : List Str → Str
  | [] => []
  | [x] => str% "or " ++ tick x
  | x :: y :: r => tick x ++ str% ", " ++ writeListMany (y :: r)

/-- `write_list` -/
def writeList : List Str → Outcome Unit Str
  | [] => .crash .dispWriteList
  | [a] => .ok (tick a)
  | [a, b] => .ok (tick a ++ str% " or " ++ tick b)
  | l => .ok (writeListMany l)

/-- `expected_id_description` -/
def expectedIdDescription : Primary N → Outcome Unit Str
  | .lit _ _ => .ok (str% "literal")
  | .sub _ _ => .ok (str% "array subscript expression")
  | .call _ _ _ => .ok (str% "function call")
  | .pop _ => .ok (str% "array pop expression")
  | .ident _ _ => .crash .dispExpectedId

/-- `if_token!(fmt)`: `pre ++ spelling ++ "`"` if the location is a token, else empty -/
def ifToken (pre : Str) : ErrLoc N → Str
  | .token t => pre ++ t.spelling ++ ['`']
  | .line _ => []

/-- `found_suffix!()` -/
def foundSuffix (loc : ErrLoc N) : Str := ifToken (str% ", found `") loc

/-- the message after the `Parse error (line n): ` header -/
def renderCode (loc : ErrLoc N) : PCode N → Outcome Unit Str
  | .generic s => .ok (s ++ ifToken (str% " at `") loc)
  | .missingIDAfterCommonPrefix pre =>
    .ok (str% "Missing identifier after " ++ tick pre ++ foundSuffix loc)
  | .mutationOperandMustBeIdentifier e =>
    (expectedIdDescription e).bind fun d =>
    .ok (str% "Mutation operand with no `into` destination must be identifier; found " ++ d)
  | .expectedPrimaryExpression => .ok (str% "Expected primary expression" ++ foundSuffix loc)
  | .expectedIdentifier => .ok (str% "Expected identifier" ++ foundSuffix loc)
  | .expectedText text => .ok (str% "Expected " ++ tick text ++ foundSuffix loc)
  | .expectedToken t => .ok (str% "Expected " ++ tick t.display ++ foundSuffix loc)
  | .expectedOneOfTokens tokens =>
    (writeList (tokens.map TK.display)).bind fun l =>
    .ok (str% "Expected " ++ l ++ foundSuffix loc)
  | .expectedPoeticNumberLiteral => .ok (str% "Expected poetic number literal" ++ foundSuffix loc)
  | .expectedSpaceAfterSays says =>
    .ok (str% "Expected space after " ++ tick says.spelling ++ foundSuffix loc)
  | .unexpectedToken =>
    match loc with
    | .token t => .ok (str% "Unexpected token " ++ tick t.spelling)
    | .line _ => .crash .dispUnexpectedToken          -- `tok.as_ref().unwrap()`
  | .unexpectedEndOfTokens => .ok (str% "Unexpected end of tokens")
  | .poeticLiteralEndingWithHyphen => .ok (str% "Poetic literal ending with hyphen")
  | .poeticLiteralStartingWithHyphen => .ok (str% "Poetic literal starting with hyphen")

/-- `Display for ParseError` (`to_string()`); a crash is a panic while formatting -/
def renderParseError (e : ParseErr N) : Outcome Unit Str :=
  (renderCode e.loc e.code).bind fun msg =>
  .ok (str% "Parse error (line " ++ natStr e.line ++ str% "): " ++ msg)

end Parser
end Rrss
