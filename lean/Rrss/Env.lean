/-
  Rrss.Env — symbol tables, scope stack, pronoun, input and output
  (mirrors src/exec/sym_table.rs and src/exec/environment.rs).

  The three keyed maps of `SymTable` are one association list keyed by the lower-cased
  `VarName` (the variant tag keeps the three kinds apart). Tables are only ever accessed by
  key (`lookup` / `insert`), so their iteration order is unobservable by construction.
-/
import Rrss.Val
import Rrss.Ast
import Rrss.Chars
namespace Rrss

/-- `RuntimeError`, flattened. -/
inductive RtErr (N : Type)
  | nameNotFound (n : VarName)
  | expectedVarFoundFunc (n : VarName)
  | expectedFuncFoundVar (n : VarName)
  | duplicateSymbol (n : VarName)
  | duplicateArgName (n : VarName)
  | missingPronoun
  | io (msg : Str)
  | val (e : ValErr N)
  | notWritable
  | listInvalid
  | wrongArgCount (expected actual : Nat)
  deriving Inhabited

/-- `SymTableEntry` -/
inductive Entry (N : Type)
  | var (v : Val N)
  | func (params : List VarName) (body : Block N)

abbrev Scope (N : Type) := List (VarName × Entry N)

/-- `ToLowercase`: the key under which a name is stored. (If every char is lower case the
    Rust code reuses the name as is; by `CharLaws.lower_of_isLowercase` that is the same.) -/
def VarName.key [CharOps] : VarName → VarName
  | .simple s => .simple (CharOps.lower s)
  | .common p w => .common (CharOps.lower p) (CharOps.lower w)
  | .proper ws => .proper (ws.map CharOps.lower)

structure Env (N : Type) where
  /-- scope stack, innermost first (Rust: `symbols`, innermost last) -/
  scopes : List (Scope N) := [[]]
  /-- `last_access` -/
  last : Option VarName := none
  /-- unread standard input -/
  input : Str := []
  /-- number of input lines handed out so far -/
  handed : Nat := 0
  /-- the reader fails when asked for the line with this index -/
  readFault : Option Nat := none
  /-- every byte the writer has received, in order -/
  out : List UInt8 := []
  /-- the writer accepts this many more bytes and then fails (`none`: never fails) -/
  wbudget : Option Nat := none
  /-- model budget: remaining steps (statements, loop rounds, calls) -/
  steps : Nat := 100000
  /-- model budget: longest string / sequence that may be built -/
  cap : Nat := 1000000

/-- Interpreter monad: state + outcome; the state survives errors (output so far). -/
def M (N α : Type) := Env N → Outcome (RtErr N) α × Env N

namespace M
variable {N α β : Type}

@[inline] def pure (a : α) : M N α := fun e => (.ok a, e)

@[inline] def bind (x : M N α) (f : α → M N β) : M N β := fun e =>
  match x e with
  | (.ok a, e') => f a e'
  | (.err er, e') => (.err er, e')
  | (.crash s, e') => (.crash s, e')
  | (.fuel, e') => (.fuel, e')
  | (.resource, e') => (.resource, e')

instance : Monad (M N) where
  pure := M.pure
  bind := M.bind

@[inline] def fail (e : RtErr N) : M N α := fun env => (.err e, env)
@[inline] def crash (s : Site) : M N α := fun env => (.crash s, env)
@[inline] def outOfFuel : M N α := fun env => (.fuel, env)
@[inline] def outOfResource : M N α := fun env => (.resource, env)
@[inline] def get : M N (Env N) := fun env => (.ok env, env)
@[inline] def set (env : Env N) : M N Unit := fun _ => (.ok (), env)
@[inline] def modify (f : Env N → Env N) : M N Unit := fun env => (.ok (), f env)

/-- lift a `Val` operation result (`ValError` becomes `RuntimeError::ValError`) -/
@[inline] def liftV (r : VRes N α) : M N α := fun env =>
  match r with
  | .ok a => (.ok a, env)
  | .err e => (.err (.val e), env)
  | .crash s => (.crash s, env)
  | .fuel => (.fuel, env)
  | .resource => (.resource, env)

@[inline] def liftE (r : Except (RtErr N) α) : M N α := fun env =>
  match r with
  | .ok a => (.ok a, env)
  | .error e => (.err e, env)

@[inline] def assert (s : Site) (b : Bool) : M N Unit := if b then pure () else crash s

end M

namespace Env
variable [CharOps] {N : Type} [NumOps N]

def slookup (k : VarName) : Scope N → Option (Entry N)
  | [] => none
  | (k', e) :: rest => if k = k' then some e else slookup k rest

def sset (k : VarName) (e : Entry N) : Scope N → Scope N
  | [] => [(k, e)]
  | (k', e') :: rest => if k = k' then (k', e) :: rest else (k', e') :: sset k e rest

/-- `lookup_var_impl`: innermost scope binding the key decides (a function there stops the search). -/
def lookupVarIn (name : VarName) : List (Scope N) → Except (RtErr N) (Val N)
  | [] => .error (.nameNotFound name)
  | s :: rest =>
    match slookup name.key s with
    | some (.var v) => .ok v
    | some (.func _ _) => .error (.expectedVarFoundFunc name)
    | none => lookupVarIn name rest

/-- `lookup_func` -/
def lookupFuncIn (name : VarName) : List (Scope N) → Except (RtErr N) (List VarName × Block N)
  | [] => .error (.nameNotFound name)
  | s :: rest =>
    match slookup name.key s with
    | some (.func ps b) => .ok (ps, b)
    | some (.var _) => .error (.expectedFuncFoundVar name)
    | none => lookupFuncIn name rest

/-- replace the variable bound in the innermost scope that binds the key (caller has checked it is a variable) -/
def setVarIn (name : VarName) (v : Val N) : List (Scope N) → List (Scope N)
  | [] => []
  | s :: rest =>
    match slookup name.key s with
    | some _ => sset name.key (.var v) s :: rest
    | none => s :: setVarIn name v rest

/-- `push_scope` -/
def pushScope : M N Unit := M.modify fun e => { e with scopes := [] :: e.scopes }

/-- `pop_scope` (clears the pronoun); `debug_assert!(symbols.len() > 1)` -/
def popScope : M N Unit := fun e =>
  match e.scopes with
  | _ :: (s2 :: rest) => (.ok (), { e with scopes := s2 :: rest, last := none })
  | _ => (.crash .envPopScope, e)

/-- `lookup_var`: records the name as last accessed, then looks it up -/
def lookupVar (name : VarName) : M N (Val N) := fun e =>
  let e := { e with last := some name }
  match lookupVarIn name e.scopes with
  | .ok v => (.ok v, e)
  | .error err => (.err err, e)

/-- `last_access()` (read through the pronoun; does not change `last_access`) -/
def lastAccess : M N (Val N) := fun e =>
  match e.last with
  | none => (.err .missingPronoun, e)
  | some name =>
    match lookupVarIn name e.scopes with
    | .ok v => (.ok v, e)
    | .error err => (.err err, e)

/-- `create_func` in the innermost scope -/
def createFunc (name : VarName) (params : List VarName) (body : Block N) : M N Unit := fun e =>
  match e.scopes with
  | [] => (.crash .envNoScope, e)
  | s :: rest =>
    match slookup name.key s with
    | some _ => (.err (.duplicateSymbol name), e)
    | none => (.ok (), { e with scopes := sset name.key (.func params body) s :: rest })

/-- `SymTable::for_function_call` -/
def functionScope : List (VarName × Val N) → Scope N → Except (RtErr N) (Scope N)
  | [], acc => .ok acc
  | (name, v) :: rest, acc =>
    match slookup name.key acc with
    | some _ => .error (.duplicateArgName name)
    | none => functionScope rest (sset name.key (.var v) acc)

/-- `push_function_scope` -/
def pushFunctionScope (args : List (VarName × Val N)) : M N Unit := fun e =>
  match functionScope args [] with
  | .ok s => (.ok (), { e with scopes := s :: e.scopes })
  | .error err => (.err err, e)

/-! ### input / output -/

def utf8 (s : Str) : List UInt8 := s.flatMap String.utf8EncodeChar

/-- `Environment::output`: `writeln!(out, "{}", text)` against a writer that accepts
    `wbudget` more bytes. -/
def output (text : Str) : M N Unit := fun e =>
  let bytes := utf8 text ++ [10]
  match e.wbudget with
  | none => (.ok (), { e with out := e.out ++ bytes })
  | some k =>
    if bytes.length ≤ k then
      (.ok (), { e with out := e.out ++ bytes, wbudget := some (k - bytes.length) })
    else
      (.err (.io (str% "verif write fault")), { e with out := e.out ++ bytes.take k, wbudget := some 0 })

/-- split off the first line: (line without its `\n`, rest) -/
def takeLine : Str → Str × Str
  | [] => ([], [])
  | c :: cs => if c = '\n' then ([], cs) else
      let (l, r) := takeLine cs
      (c :: l, r)

/-- `Environment::input`: one line without its terminator, `""` at end of input. -/
def inputLine : M N Str := fun e =>
  match e.input with
  | [] => (.ok [], e)
  | inp =>
    if e.readFault = some e.handed then (.err (.io (str% "verif read fault")), e)
    else
      let (line, rest) := takeLine inp
      (.ok line, { e with input := rest, handed := e.handed + 1 })

/-- one unit of the step budget -/
def tick : M N Unit := fun e =>
  match e.steps with
  | 0 => (.resource, e)
  | n + 1 => (.ok (), { e with steps := n })

end Env
end Rrss
