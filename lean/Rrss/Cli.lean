/-
  Rrss.Cli — the command-line wrapper (mirrors src/cli/{mod,exec,linter,parser,error}.rs,
  src/lib.rs `run`, src/main.rs) as a composition of the model's parser, interpreter and
  linter. Abstracted: `clap`'s acceptance of the argument vector (a usage is either one of the
  three subcommands with exactly one path, or bad), the file system (a partial map from paths
  to texts), `{:#?}` of the syntax tree (a parameter), colour codes, stdout buffering.
-/
import Rrss.Parser
import Rrss.ParseErrorDisplay
import Rrss.Interp
import Rrss.ErrorDisplay
import Rrss.Lint
namespace Rrss
namespace Cli

inductive Cmd | parse | lint | exec
  deriving DecidableEq, Repr

/-- what `clap` makes of the argument vector -/
inductive Usage
  | run (cmd : Cmd) (path : Str)
  | bad (message : Str)          -- no / unknown subcommand, missing or extra operand, …

structure Out where
  stdout : List UInt8 := []
  stderr : Str := []
  exit : Nat := 0

variable [CharOps] {N : Type} [NumOps N]

/-- `Lint issue: (line N) issue` + `\n\t` suggestion … + `\n` per diagnostic (cli/linter.rs `colorized`) -/
def renderDiag (d : Diag) : Str :=
  str% "Lint issue: " ++ str% "(line " ++ natToStr d.line ++ str% ") " ++ d.issue ++
    (d.suggestions.flatMap fun s => '\n' :: '\t' :: s) ++ ['\n']

def renderLint (ds : List Diag) : Str :=
  if ds.isEmpty then str% "No lint issues found :)" else ds.flatMap renderDiag

/-- `dump_output(Err(e))`: `eprintln!("{}", e)`; the process still exits 0 -/
def parseErrorOut (e : Parser.ParseErr N) : Out :=
  match Parser.renderParseError e with
  | .ok msg => { stderr := str% "Parse error: " ++ msg ++ ['\n'] }
  | _ => { stderr := str% "<panic>", exit := 101 }

/-- `run_from_command_line` on the text of the file -/
def runSource (kw : List (Str × TK)) (debugFmt : Program N → Str) (fuel : Nat) (cmd : Cmd)
    (src : Str) (stdin : Str) (steps cap : Nat) : Outcome Unit Out :=
  match Parser.parseProgram kw src with
  | .err e => .ok (parseErrorOut e)
  | .crash s => .crash s
  | .fuel => .fuel
  | .resource => .resource
  | .ok prog =>
    match cmd with
    | .parse => .ok { stdout := Env.utf8 (debugFmt prog ++ ['\n']) }
    | .lint =>
      match Lint.run prog with
      | .ok ds => .ok { stdout := Env.utf8 (renderLint ds) }
      | .crash s => .crash s
      | _ => .fuel
    | .exec =>
      let env : Env N := { input := stdin, steps := steps, cap := cap }
      match Interp.execProgram fuel prog env with
      | (.ok (), env') => .ok { stdout := env'.out }
      | (.err e, env') => .ok { stdout := env'.out, stderr := str% "Runtime error: " ++ e.render ++ ['\n'] }
      | (.crash s, _) => .crash s
      | (.fuel, _) => .fuel
      | (.resource, _) => .resource

/-- `rrss::run()`: bad usage and unreadable files give exit status 1 with a message on stderr -/
def main (kw : List (Str × TK)) (debugFmt : Program N → Str) (fuel : Nat) (usage : Usage)
    (files : Str → Option Str) (stdin : Str) (steps cap : Nat) : Outcome Unit Out :=
  match usage with
  | .bad msg => .ok { stderr := msg ++ ['\n'], exit := 1 }
  | .run cmd path =>
    match files path with
    | none => .ok { stderr := str% "No such file or directory (os error 2)" ++ ['\n'], exit := 1 }
    | some src => runSource kw debugFmt fuel cmd src stdin steps cap

end Cli
end Rrss
