/-
  Differential test of Rrss/F64.lean against Rust (reference data written by /tmp/f64work/ref.rs).

    rustc -O /tmp/f64work/ref.rs -o /tmp/f64work/ref && /tmp/f64work/ref /tmp/f64work/data
    cd lean && lake env lean --run TestF64.lean [/tmp/f64work/data]

  Exit code 0 iff there is no mismatch. File formats: see the header of ref.rs.
-/
import Rrss.F64
open Rrss

structure Tally where
  compared : Nat := 0
  bad : Nat := 0
  shown : Nat := 0

def Tally.check (t : Tally) (ok : Bool) (msg : Unit → String) : IO Tally := do
  if ok then
    return { t with compared := t.compared + 1 }
  else
    if t.shown < 20 then IO.eprintln s!"MISMATCH {msg ()}"
    return { compared := t.compared + 1, bad := t.bad + 1, shown := t.shown + 1 }

def str (s : Str) : String := String.ofList s

def hexNibble (b : UInt8) : UInt8 :=
  if b ≥ 97 then b - 87 else if b ≥ 65 then b - 55 else b - 48

/-- `x` + hex of UTF-8 bytes → text -/
def unhex (s : String) : Option Str := do
  let bs := s.toUTF8
  if bs.size == 0 || bs[0]! != 120 || bs.size % 2 != 1 then none
  let mut out := ByteArray.emptyWithCapacity (bs.size / 2)
  let mut i := 1
  while i + 1 < bs.size do
    out := out.push (hexNibble bs[i]! * 16 + hexNibble bs[i+1]!)
    i := i + 2
  (String.fromUTF8? out).map String.toList

def showParse (r : Option Float) : String :=
  match r with
  | none => "none"
  | some x => str x.bitsHex

def bitsOf (s : String) : IO Float :=
  match Float.ofBitsHex? s.toList with
  | some x => pure x
  | none => throw (IO.userError s!"bad BITS field: {s}")

def intOf (s : String) : IO Int :=
  match s.toInt? with
  | some x => pure x
  | none => throw (IO.userError s!"bad INT field: {s}")

/-- runs `f` on every line of the file -/
partial def forLines (path : System.FilePath) (t : Tally) (f : Tally → String → IO Tally) : IO Tally := do
  let h ← IO.FS.Handle.mk path .read
  let rec loop (t : Tally) : IO Tally := do
    let line ← h.getLine
    if line.isEmpty then return t
    let line := if line.back == '\n' then (line.dropEnd 1).toString else line
    loop (← f t line)
  loop t

def ordName : Option Ordering → String
  | none => "none" | some .lt => "lt" | some .eq => "eq" | some .gt => "gt"

def testDisplay (dir : String) : IO Tally := do
  forLines (dir ++ "/display.txt") {} fun t line => do
    match line.splitOn " " with
    | [b, text] =>
      let x ← bitsOf b
      let got := str (NumOps.fmt x)
      let t ← t.check (got == text) fun _ => s!"fmt {b}: got {got}, Rust {text}"
      -- the NumBits round trip, and parse ∘ fmt = id
      let t ← t.check (str x.bitsHex == b) fun _ => s!"bitsHex {b}: got {str x.bitsHex}"
      let back := showParse (NumOps.parse text.toList : Option Float)
      t.check (back == b) fun _ => s!"parse(display) {text}: got {back}, Rust {b}"
    | _ => throw (IO.userError s!"bad display line: {line}")

def testParse (dir : String) : IO Tally := do
  forLines (dir ++ "/parse.txt") {} fun t line => do
    match line.splitOn " " with
    | [h, want] =>
      match unhex h with
      | none => throw (IO.userError s!"bad hex text: {h.take 60}")
      | some s =>
        let got := showParse (NumOps.parse s : Option Float)
        t.check (got == want) fun _ => s!"parse {(str s).take 120}: got {got}, Rust {want}"
    | _ => throw (IO.userError s!"bad parse line: {line.take 80}")

def testConv (dir : String) : IO Tally := do
  forLines (dir ++ "/conv.txt") {} fun t line => do
    match line.splitOn " " with
    | ["ofint", n, b] =>
      let got := str (NumOps.ofInt (← intOf n) : Float).bitsHex
      t.check (got == b) fun _ => s!"ofInt {n}: got {got}, Rust {b}"
    | ["tousize", b, n] =>
      let got := NumOps.toUSize (← bitsOf b)
      t.check (toString got == n) fun _ => s!"toUSize {b}: got {got}, Rust {n}"
    | ["toi64", b, n] =>
      let got := NumOps.toI64 (← bitsOf b)
      t.check (toString got == n) fun _ => s!"toI64 {b}: got {got}, Rust {n}"
    | [op, a, b] =>
      let x ← bitsOf a
      let f : Float → Float ← match op with
        | "round" => pure NumOps.round
        | "trunc" => pure NumOps.trunc
        | "floor" => pure NumOps.floor
        | "ceil" => pure NumOps.ceil
        | _ => throw (IO.userError s!"bad conv line: {line}")
      let got := str (f x).bitsHex
      t.check (got == b) fun _ => s!"{op} {a}: got {got}, Rust {b}"
    | ["cmp", a, b, r] =>
      let got := ordName (NumOps.cmp (← bitsOf a) (← bitsOf b))
      t.check (got == r) fun _ => s!"cmp {a} {b}: got {got}, Rust {r}"
    | ["beq", a, b, r] =>
      let got := if NumOps.beq (← bitsOf a) (← bitsOf b) then "1" else "0"
      t.check (got == r) fun _ => s!"beq {a} {b}: got {got}, Rust {r}"
    | _ => throw (IO.userError s!"bad conv line: {line}")

def main (args : List String) : IO UInt32 := do
  let dir := args.headD "/tmp/f64work/data"
  let t0 ← IO.monoMsNow
  let d ← testDisplay dir
  let t1 ← IO.monoMsNow
  IO.println s!"display.txt: {d.compared} comparisons, {d.bad} mismatches ({t1 - t0} ms)"
  let p ← testParse dir
  let t2 ← IO.monoMsNow
  IO.println s!"parse.txt:   {p.compared} comparisons, {p.bad} mismatches ({t2 - t1} ms)"
  let c ← testConv dir
  let t3 ← IO.monoMsNow
  IO.println s!"conv.txt:    {c.compared} comparisons, {c.bad} mismatches ({t3 - t2} ms)"
  let bad := d.bad + p.bad + c.bad
  IO.println s!"TOTAL: {d.compared + p.compared + c.compared} comparisons, {bad} mismatches, {t3 - t0} ms"
  return if bad == 0 then 0 else 1
